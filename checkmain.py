import os, sys
sys.path.insert(0, os.path.dirname(os.path.abspath(__file__)))
from sigsim.cli import main
sys.exit(main())

"""Regenerates MANIFEST.json from the table below (kept in one place so it stays valid)."""
import json, os
HERE = os.path.dirname(os.path.abspath(__file__))
BASELINE = "cd /repo && /venv/bin/python -m pytest -ra -q -p no:cacheprovider --timeout=900 --continue-on-collection-errors"
CLAIMED = {
 "C14": ("3/C14", "seeded history search over composition / resolution operations against an executable reference model and a fresh-world single-pipeline reference",
         "Seeded search over histories of Add (any bracketing, identities), Resolve (names, files, directory; any argument and enumeration order; repeated), UseInBackend and Check operations on 1-5 pipelines with priorities, overlapping vars and order-revealing items. Each Check compares the conversion through the composed object (a) with the complete output string predicted by a reference model from the specs alone and (b) with one pipeline built freshly from the concatenated YAML in a world without history."),
 "C16": ("3/C16", "seeded history search in a world of recording fakes and trip-wires, checked against a capability model",
         "Seeded search over pipeline documents with every external-source and template item type at top level and nested, opt-in keys smuggled in at every level incl. the document root, loads through from_dict / from_yaml / resolver with caller opt-ins, environment variables flipped between load and use, conversions, and scripted faults of the fakes. Every command, HTTP, socket, placeholder-file and vars-execution event (fakes, trip-wire files, audit hook) must be permitted by the caller's arguments for that pipeline or by a documented environment variable at that moment; a denied capability must surface as the Sigma security error."),
 "C19": ("3/C19", "seeded search over validator order, rule order and Validate/Convert/ToDict interleavings; purity, invariance and reference-model oracles",
         "Seeded search over collections with tricky detection names, duplicate ids / titles / file names and exclusion tables; each scheduled world imposes its own validator order (explicit container instead of the address-ordered set), rule order (file split and enumeration order) and interleaving of validation with conversion and serialisation. Oracles: dict form and queries equal those of a never-validated world with the same rule order; the issue multiset is identical in all worlds; reference model for dangling detections / selectors, identifier / title / filename groups and exclusions."),
 "C20": ("3/C20", "seeded search over process-start tuples (hash seed, random draws incl. forced colliding draws, heap layout) with real interpreter starts",
         "Seeded search over corpora rich in order-carrying and random-name constructs; each evaluation starts the same load-and-convert driver as 4-6 real CPython interpreters with distinct PYTHONHASHSEED, random seed or forced draw list and heap-shift seed (ASLR off when permitted) and compares queries, finalised output, load errors, pipeline build errors and error records byte for byte; output is scanned for internal _cond_/_filt_ identifiers, forced draws and object addresses."),
 "C15": ("3/C15", "seeded history search with fault injection against a fresh-world reference (fork of a pristine image)",
         "Seeded search over histories of <=8 operations on shared backends / pipeline objects / class-level pipelines / process caches with injected exceptions at backend method boundaries, pipeline failure items, partial pipeline application, cache-size knobs and flushes; every probe conversion of a freshly loaded rule is compared with the same call in a world without history, and backend class settings are compared with their pristine values after every operation. Sampling, not enumeration: a clean batch is evidence."),
 "C06": ("3/C06", "seeded history search (load, one pipeline transformation possibly failing half-way, dump, reload, convert) with a self-comparison oracle",
         "Seeded search over rules, correlation rules with their rules and filtered rules, each after zero or one pipeline transformation of any built-in kind (or a partial application that raises at the j-th detection item): the object is written with to_dict and YAML (key order preserved), loaded again, and both the dict form and the queries of live and reloaded object (pipeline-free backend without shortcuts) must agree, or the dump must fail with a Sigma error."),
 "C08": ("3/C08", "seeded fault-sequence search; accounting oracle against rules converted alone in fresh worlds",
         "Seeded search over collections of 1-8 rules in which any subset fails at any stage and position (pipeline failure items, partial application, post-processing, unresolved placeholder, unbound values, missing detection, unsupported feature, injected errors at conversion hooks, finish_query and finalize_query); the batch result and error records in collecting mode and the raised error in strict mode are accounted for against every rule converted alone in its own fresh world."),
 "C09": ("3/C09", "seeded delivery-order search (all permutations for small sets) over the four load paths and re-use of rule objects from an earlier collection, against a reference model",
         "Seeded search over rule sets with correlation chains; every scheduled (permutation, delivery path) runs in its own fresh world, with the directory enumeration order and the merge bracketing chosen by the simulator; all permutations are walked for sets of <=4 documents (<=5 thorough), sampled beyond. Oracle: reference model of load success, conversion order, per-rule queries and own-query emission computed from the set of documents."),
}
PENDING = []
NA = {
 "C01": "pure function of (rule document, backend class attributes): no schedule, fault, clock or history for a seeded scheduler to choose; the class-template-swap state facet is exercised under C15",
 "C02": "the condition grammar is a pure function of the condition string; the parse-cache facet (shared tree must be copied) is decided under C15",
 "C03": "modifier application is a pure function of (value, modifier chain); the modifier type-hint cache is a C15 knob",
 "C04": "Base64 / UTF-16 offset arithmetic is a pure function of the payload; nothing to inject or reorder",
 "C05": "string rendering and escaping is a pure function of (string, escaping configuration)",
 "C07": "error typing of malformed documents is a pure function of the parsed document; storage faults (torn bytes) reach only a thin slice of 'any value at any path replaced' and mostly yield non-YAML, which the statement excludes - the rest would be input mutation fuzzing, not simulation",
 "C10": "correlation query content is a pure function of (correlation rule, templates, pipeline); the order/suppression part that depends on history is C09",
 "C11": "filter applicability and the resulting conjunction are pure functions of (rules, filters); the only nondeterministic clause ('whatever prefix is drawn') is decided under C20 by forcing draws, the shared-detection leak under C08",
 "C12": "transformation == documented source rewrite needs a semantic comparison of two pure conversions; no fault or schedule involved",
 "C13": "gating is a pure function of (item conditions, rule) within one apply(); the across-rule part (bookkeeping reset) is C15",
 "C17": "placeholder expansion is a pure function of (value, pipeline, vars); external sources are C16's capability question",
 "C18": "CIDR expansion is pure integer arithmetic",
}
def main():
    claimed = dict(CLAIMED)
    checks = []
    for pid, (ref, tech, text) in sorted(claimed.items()):
        checks.append({
            "property_id": pid,
            "quick_cmd": f"./check {pid} --tier quick",
            "thorough_cmd": f"./check {pid} --tier thorough",
            "evidence_file": f"/verif/evidence/{pid}.json",
            "replay_cmd_template": "./check replay {path}",
            "engine": "sigsim",
            "level_claimed": {"category": "exploration", "text": text, "design_ref": "DESIGN.md section " + ref},
            "level_note": "trusted base: the sigsim harness in /verif (seeded generator, fork-per-run from a pristine image, SimBackend subclasses, reference models); fresh world = fork of the pristine image (self-test compares it with a cold interpreter); seeded sampling, no exhaustiveness claim beyond the small sub-spaces named in the evidence file",
            "technique": "deterministic simulation: " + tech,
        })
    na = [{"property_id": k, "reason": v} for k, v in sorted(NA.items())]
    for p in PENDING:
        if p not in claimed:
            na.append({"property_id": p, "reason": "not claimed yet: its machine (DESIGN.md section 3) is not registered until its quick tier is clean and its seeded mutants are caught"})
    m = {
        "version": 1,
        "setup_cmd": "./check selftest --fast",
        "hooks": {
            "guard": "SIGMAHQ_PYSIGMA_VERIF",
            "enable": "no hook exists in /repo: every seam is subclassing or monkeypatching from /verif (SimBackend subclasses, registered sim_* transformations, random.choices / Path.glob / subprocess / requests fakes, audit hook)",
            "baseline_off_cmd": BASELINE,
            "source_commits": [],
            "add_only": True,
        },
        "engines": [{"name": "sigsim", "path": "/verif/sigsim", "serves_properties": sorted(claimed),
                     "kind_free_text": "deterministic simulation with fault injection: seeded scenario generator, fork-per-run executor from a pristine process image, fresh-world / reference-model oracles, delta-debugging minimiser, replay files"}],
        "checks": checks,
        "not_applicable": sorted(na, key=lambda x: x["property_id"]),
        "notes": "See DESIGN.md. known_findings.json lists repaired defects (fix: commits in /repo) and open findings.",
    }
    with open(os.path.join(HERE, "MANIFEST.json"), "w") as f:
        json.dump(m, f, indent=1)
main()

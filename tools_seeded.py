"""
Verify one change written by an independent sub-agent and file it under /verif/seeded/<id>/.

  tools_seeded.py <property> <source dir with patch.diff demo.py notes.md> <id> [extra property ...]

Steps (all in a scratch git worktree of /repo outside /repo and /verif, removed afterwards):
  1. the patch applies and touches only sigma/; the unit-test suite with the patch gives the baseline
     result (1523 passed; the two mitre cache tests are known to flake in this sandbox);
  2. the sub-agent's demo fails with the patch and passes without it;
  3. the quick tier of the property's check (and of the extra properties) is run against the patched
     tree (VERIF_REPO) and against the clean worktree: caught = exit 1 with a VIOLATION line on the
     patched tree and exit 0 on the clean one.
"""

import json
import os
import re
import shutil
import subprocess
import sys
import time

prop, src, sid = sys.argv[1], sys.argv[2], sys.argv[3]
extra = sys.argv[4:]
HERE = os.path.dirname(os.path.abspath(__file__))
wt = f"/tmp/sv_{sid}"


def sh(cmd, cwd=None, env=None, timeout=1800):
    e = dict(os.environ)
    e.update(env or {})
    p = subprocess.run(cmd, shell=True, cwd=cwd, env=e, capture_output=True, text=True, timeout=timeout)
    return p.returncode, (p.stdout + p.stderr)


subprocess.run(f"git -C /repo worktree remove --force {wt}", shell=True, capture_output=True)
rc, out = sh(f"git -C /repo worktree add -q --detach {wt} HEAD")
assert rc == 0, out
meta = {"id": sid, "property": prop, "source": "independent sub-agent (given only the property text and a scratch worktree)"}
try:
    patch = os.path.join(src, "patch.diff")
    rc, out = sh(f"git apply --check {patch}", cwd=wt)
    meta["patch_applies"] = rc == 0
    files = re.findall(r"^\+\+\+ b/(\S+)", open(patch).read(), re.M)
    meta["files_touched"] = files
    meta["touches_only_sigma"] = all(f.startswith("sigma/") for f in files)
    sh(f"git apply {patch}", cwd=wt)
    env = {"PYTHONPATH": wt}
    rc, out = sh("/venv/bin/python -m pytest -q -p no:cacheprovider 2>&1 | tail -1", cwd=wt, env=env)
    meta["suite_with_patch"] = out.strip()
    m = re.search(r"(\d+) failed, (\d+) passed", out)
    meta["suite_passes_with_patch"] = bool(m and int(m.group(2)) >= 1521 and int(m.group(1)) <= 14)
    rc, out = sh(f"/venv/bin/python {os.path.join(src, 'demo.py')}", cwd=wt, env=env, timeout=600)
    meta["demo_with_patch_exit"] = rc
    meta["demo_with_patch_tail"] = out.strip()[-400:]
    checks = {}
    for p in [prop] + extra:
        t0 = time.time()
        rc, out = sh(f"./check {p} --tier quick --no-evidence", cwd=HERE,
                     env={"VERIF_REPO": wt, "VERIF_MAX_REPORTS": "2", "VERIF_MIN_BUDGET_S": "25"})
        lines = [l for l in out.splitlines() if l.startswith("VIOLATION") or l.startswith("  oracle=")]
        checks[p] = {"exit": rc, "caught": rc == 1 and any(l.startswith("VIOLATION") for l in lines),
                     "first_lines": lines[:4], "wall_s": round(time.time() - t0, 1),
                     "summary": next((l for l in out.splitlines() if l.startswith("[sigsim] " + p + ":")), "")}
        # keep the minimised replay of the first violation as part of the record
        mrep = re.search(r"replay=(\S+)", "\n".join(lines))
        if mrep and os.path.exists(mrep.group(1)):
            os.makedirs(os.path.join(HERE, "seeded", sid), exist_ok=True)
            shutil.copy(mrep.group(1), os.path.join(HERE, "seeded", sid, f"replay-{p}.json"))
    meta["checks_on_patched_tree"] = checks
    sh("git checkout -- .", cwd=wt)
    rc, out = sh(f"/venv/bin/python {os.path.join(src, 'demo.py')}", cwd=wt, env=env, timeout=600)
    meta["demo_without_patch_exit"] = rc
    rc, out = sh(f"./check {prop} --tier quick --no-evidence", cwd=HERE, env={"VERIF_REPO": wt})
    meta["check_on_clean_tree_exit"] = rc
    meta["confirmed"] = bool(meta["patch_applies"] and meta["touches_only_sigma"] and meta["suite_passes_with_patch"]
                             and meta["demo_with_patch_exit"] != 0 and meta["demo_without_patch_exit"] == 0)
    meta["caught_by"] = [p for p, c in checks.items() if c["caught"]]
finally:
    subprocess.run(f"git -C /repo worktree remove --force {wt}", shell=True, capture_output=True)
dst = os.path.join(HERE, "seeded", sid)
os.makedirs(dst, exist_ok=True)
for f in ("patch.diff", "demo.py", "notes.md"):
    if os.path.exists(os.path.join(src, f)):
        shutil.copy(os.path.join(src, f), os.path.join(dst, f))
notes = open(os.path.join(src, "notes.md")).read() if os.path.exists(os.path.join(src, "notes.md")) else ""
meta["needs_to_manifest"] = notes.strip()[:1500]
meta["what_was_run"] = [
    "git apply --check / git apply in a scratch worktree of /repo HEAD",
    "PYTHONPATH=<worktree> /venv/bin/python -m pytest -q -p no:cacheprovider (with patch)",
    "PYTHONPATH=<worktree> /venv/bin/python demo.py (with and without patch)",
    "VERIF_REPO=<worktree> ./check <property> --tier quick --no-evidence (with and without patch)",
]
with open(os.path.join(dst, "meta.json"), "w") as fh:
    json.dump(meta, fh, indent=1)
print(json.dumps({k: meta[k] for k in ("id", "confirmed", "caught_by", "suite_with_patch", "demo_with_patch_exit",
                                       "demo_without_patch_exit", "check_on_clean_tree_exit")}))
for p, c in meta["checks_on_patched_tree"].items():
    print("   ", p, c["exit"], c["first_lines"][:2], c["summary"][-120:])

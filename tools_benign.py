"""
Run the quick tier of one property against a behaviour-preserving change written by a sub-agent:
  tools_benign.py <property> <patch.diff> <label>
Applies the patch to a scratch copy of /repo/sigma, checks that the unit-test suite result is unchanged
(in a scratch worktree) and that ./check <property> --tier quick stays quiet (exit 0, no VIOLATION line).
"""
import os, re, shutil, subprocess, sys, tempfile, json
prop, patch, label = sys.argv[1:4]
HERE = os.path.dirname(os.path.abspath(__file__))
wt = f"/tmp/bv_{label}"
subprocess.run(f"git -C /repo worktree remove --force {wt}", shell=True, capture_output=True)
subprocess.run(f"git -C /repo worktree add -q --detach {wt} HEAD", shell=True, check=True)
res = {"label": label, "property": prop}
try:
    p = subprocess.run(f"git apply {patch}", shell=True, cwd=wt, capture_output=True, text=True)
    res["applies"] = p.returncode == 0
    if p.returncode == 0:
        t = subprocess.run("/venv/bin/python -m pytest -q -p no:cacheprovider 2>&1 | tail -1", shell=True, cwd=wt,
                           env=dict(os.environ, PYTHONPATH=wt), capture_output=True, text=True).stdout.strip()
        res["suite"] = t
        m = re.search(r"(\d+) failed, (\d+) passed", t)
        res["suite_ok"] = bool(m and int(m.group(2)) >= 1521 and int(m.group(1)) <= 14)
        c = subprocess.run(f"./check {prop} --tier quick --no-evidence", shell=True, cwd=HERE,
                           env=dict(os.environ, VERIF_REPO=wt), capture_output=True, text=True)
        out = c.stdout + c.stderr
        res["check_exit"] = c.returncode
        res["quiet"] = c.returncode == 0 and "VIOLATION" not in out
        res["lines"] = [l[:300] for l in out.splitlines() if l.startswith(("VIOLATION", "  oracle=", "HARNESS", "[sigsim] " + prop + ":"))][:6]
finally:
    subprocess.run(f"git -C /repo worktree remove --force {wt}", shell=True, capture_output=True)
print(json.dumps(res))

"""
The program that C20 starts as m real interpreters: load -> convert(collect_errors=True) -> print
queries, finalised output and every error record as JSON.  argv: <scenario.json> <config json>.
The config fixes what a process start fixes: random seed or forced draws and a heap-shift seed
(PYTHONHASHSEED is set by the parent in the environment; ASLR is disabled by the parent if it can).
"""

import json
import os
import random
import sys

cfg = json.loads(sys.argv[2])
# seeded pre-allocation that shifts the heap layout before anything of pySigma is imported
_r = random.Random(cfg.get("heap_seed", 0))
_junk = [bytearray(_r.randint(1, 4096)) for _ in range(_r.randint(0, 3000))]
_junk2 = [object() for _ in range(_r.randint(0, 5000))]
del _junk[:: 2]

here = os.path.dirname(os.path.dirname(os.path.abspath(__file__)))
if os.environ.get("VERIF_REPO"):
    sys.path.insert(0, os.environ["VERIF_REPO"])
sys.path.insert(0, here)

import copy  # noqa: E402
import warnings  # noqa: E402

warnings.filterwarnings("ignore")

with open(sys.argv[1]) as fh:
    sc = json.load(fh)

random.seed(cfg.get("random_seed", 0))
forced = list(cfg.get("forced_draws") or [])
if forced:
    _orig_choices = random.choices

    def _choices(population, weights=None, *, cum_weights=None, k=1):  # type: ignore[no-untyped-def]
        if forced:
            s = forced.pop(0)
            return list(s[:k].ljust(k, "a"))
        return _orig_choices(population, weights, cum_weights=cum_weights, k=k)

    random.choices = _choices  # type: ignore[assignment]

from sigma.collection import SigmaCollection  # noqa: E402
from sigma.processing.pipeline import ProcessingPipeline  # noqa: E402
from sigsim import simbackend  # noqa: E402


def rec(e: BaseException) -> dict:
    return {"exc": type(e).__name__, "msg": str(e)}


out: dict = {"pipeline_error": None, "load": None, "load_errors": [], "convert": None, "errors": [],
             "issues": None}
pipeline = None
if sc.get("pipeline") is not None:
    try:
        pipeline = ProcessingPipeline.from_dict(copy.deepcopy(sc["pipeline"]))
        if sc.get("pipeline2") is not None:
            pipeline = pipeline + ProcessingPipeline.from_dict(copy.deepcopy(sc["pipeline2"]))
    except Exception as e:  # noqa: BLE001
        out["pipeline_error"] = rec(e)
coll = None
try:
    coll = SigmaCollection.from_dicts(copy.deepcopy(sc["documents"]), collect_errors=True)
    out["load"] = "ok"
    out["load_errors"] = [rec(e) for e in coll.errors]
except Exception as e:  # noqa: BLE001
    out["load"] = rec(e)
if coll is not None:
    backend = simbackend.CLASSES[sc["cls"]](pipeline, collect_errors=True)
    try:
        res = backend.convert(coll, sc.get("format", "default"), sc.get("correlation_method"))
        out["convert"] = {"ok": res if isinstance(res, (str, list)) else repr(res)}
    except Exception as e:  # noqa: BLE001
        out["convert"] = rec(e)
    out["errors"] = [{"rule": getattr(r, "title", None), **rec(e)} for r, e in backend.errors]
    if sc.get("validate"):
        try:
            from sigma.validation import SigmaValidator
            from sigma.validators.core import validators

            coll2 = SigmaCollection.from_dicts(copy.deepcopy(sc["documents"]), collect_errors=True)
            v = SigmaValidator([c for n, c in validators.items() if "attack" not in n and "d3" not in n])
            issues = v.validate_rules(coll2)
            out["issues"] = sorted(
                type(i).__name__ + ":" + ",".join(sorted(str(r.title) for r in i.rules)) + ":" +
                ",".join(f"{k}={getattr(i, k)!r}" for k in sorted(vars(i)) if k != "rules")
                for i in issues)
        except Exception as e:  # noqa: BLE001
            out["issues"] = rec(e)
sys.stdout.write(json.dumps(out, sort_keys=True, default=repr))

"""
Command line of the simulator.

  check <Cxx> [--tier quick|thorough] [--runs N] [--budget S] [--workers W]
  check replay <file>
  check selftest [--fast]
  check digest <Cxx> --runs N [--workers W]      (prints the batch digest; used by the self-test)

Exit status: 0 = property held on everything explored (known findings are listed, not alarms);
1 = violation (a line "VIOLATION property=<id> replay=<path>" is printed); 2 = harness problem
(never reported as a violation, never exit 0).
"""

from __future__ import annotations

import argparse
import importlib
import json
import os
import sys
import time
from typing import Any

HERE = os.path.dirname(os.path.dirname(os.path.abspath(__file__)))


def _reexec_with_fixed_hashseed() -> None:
    if os.environ.get("PYTHONHASHSEED") is None:
        env = dict(os.environ)
        env["PYTHONHASHSEED"] = "0"
        os.execve(sys.executable, [sys.executable] + sys.argv, env)


def _setup_path() -> None:
    repo = os.environ.get("VERIF_REPO")
    if repo:
        sys.path.insert(0, repo)
    if HERE not in sys.path:
        sys.path.insert(0, HERE)


def load_machine(prop: str) -> Any:
    return importlib.import_module(f"sigsim.machines.{prop.lower()}")


def preload() -> None:
    """Import everything the runs will need so that forked children share one pristine image."""
    import sigma.collection, sigma.conversion.base, sigma.validation  # noqa: F401,E401
    import sigma.validators.core, sigma.processing.resolver, sigma.backends.test  # noqa: F401,E401
    import sigma.processing.pipeline, sigma.processing.postprocessing  # noqa: F401,E401
    import sigma.pipelines.common, sigma.plugins  # noqa: F401,E401
    import jinja2.sandbox  # noqa: F401
    try:
        import jq  # noqa: F401
    except Exception:
        pass
    try:
        import requests  # noqa: F401
    except Exception:
        pass
    from sigsim import simbackend, world  # noqa: F401


def cmd_check(args: argparse.Namespace) -> int:
    from sigsim import core

    prop = args.property.upper()
    machine = load_machine(prop)
    preload()
    tier = args.tier or os.environ.get("VERIF_TIER") or "quick"
    t0 = time.monotonic()
    seed = core.verif_seed()
    if tier == "quick":
        n_runs = args.runs or int(os.environ.get("VERIF_RUNS", "0")) or machine.QUICK_RUNS
        budget = None
    else:
        n_runs = args.runs
        budget = None if n_runs else float(args.budget or os.environ.get("VERIF_BUDGET_S", "600"))
    print(f"[sigsim] property={prop} tier={tier} VERIF_SEED={seed} runs={n_runs} budget_s={budget}", flush=True)
    recs = core.run_batch(machine, tier, n_runs, budget, workers=args.workers)
    wall_batch = time.monotonic() - t0
    # A run that timed out or died (e.g. the machine was heavily loaded) is re-executed alone, with a
    # doubled timeout, before it is reported as a harness problem: it is deterministic, so nothing is lost.
    for k, r in enumerate(recs):
        if "harness" in r and r.get("index", -1) >= 0:
            for _ in range(2):
                st, payload = core.run_in_fork(core._one_run, (machine, r["index"], r["seed"], tier),
                                               2 * getattr(machine, "RUN_TIMEOUT", 30.0))
                if st == "ok":
                    recs[k] = payload
                    break
    return report(machine, prop, tier, seed, recs, t0, wall_batch, write=not args.no_evidence)


def report(machine: Any, prop: str, tier: str, seed: int, recs: list[dict], t0: float, wall_batch: float,
           write: bool = True) -> int:
    from sigsim import core

    harness = [r for r in recs if "harness" in r]
    good = [r for r in recs if "harness" not in r]
    viol = [r for r in good if r.get("violation")]
    findings = core.load_known_findings()
    faults: dict[str, int] = {}
    probes: dict[str, int] = {}
    sigs: set[str] = set()
    steps = 0
    unavailable: set[str] = set()
    for r in good:
        core.merge_counts(faults, r.get("faults", {}))
        core.merge_counts(probes, r.get("probes", {}))
        steps += r.get("steps", 0)
        unavailable.update(r.get("unavailable_knobs", []))
        if r.get("nontrivial") and r.get("signature"):
            sigs.add(r["signature"])
    samples = [{"scenario": r.get("scenario"), "log": r.get("log")} for r in good[:3] if r.get("scenario")]

    # ---- violations: minimise, classify against known findings
    new_violations: list[tuple[dict, dict, str]] = []
    known_hits: dict[str, int] = {}
    by_class: dict[tuple, list[dict]] = {}
    for r in viol:
        by_class.setdefault(core.violation_class(r["violation"]), []).append(r)
    min_budget = float(os.environ.get("VERIF_MIN_BUDGET_S", "40"))
    max_new = int(os.environ.get("VERIF_MAX_REPORTS", "3"))
    pretag = getattr(machine, "PRETAG", False)
    for vclass, group in sorted(by_class.items(), key=lambda kv: str(kv[0])):
        examined = 0
        for r in group:
            sc = r["scenario"]
            v = r["violation"]
            if pretag:  # small scenarios: tags are precise on the unminimised scenario
                tg = machine.tags(sc, v)
                f = core.match_known(prop, v, tg, findings)
                if f is not None:
                    # try to escape the quarantine: strip the tagged feature, see if it still fails
                    esc = getattr(machine, "escape", None)
                    escaped = None
                    if esc is not None and known_hits.get(f["id"], 0) < int(os.environ.get("VERIF_ESCAPES", "25")):
                        for cand in esc(sc, f):
                            st, out = core.execute_scenario(machine, cand)
                            if st == "ok" and core.violation_class(out.get("violation")) == vclass:
                                tg2 = machine.tags(cand, out["violation"])
                                if core.match_known(prop, out["violation"], tg2, findings) is None:
                                    escaped = (cand, out["violation"])
                                    break
                    known_hits[f["id"]] = known_hits.get(f["id"], 0) + 1
                    if escaped is None:
                        continue
                    sc, v = escaped
            if examined >= max_new:
                continue
            examined += 1
            msc, mv = core.minimise(machine, sc, vclass, budget_s=min_budget)
            if mv is None:
                harness.append({"index": r["index"], "seed": r["seed"], "harness": "non-replayable",
                                "detail": f"violation {vclass} did not reproduce when re-executed"})
                continue
            tg = machine.tags(msc, mv)
            f = core.match_known(prop, mv, tg, findings)
            if f is not None:
                known_hits[f["id"]] = known_hits.get(f["id"], 0) + 1
                continue
            msc = dict(msc)
            msc["violation"] = {k: mv.get(k) for k in ("oracle", "kind", "step", "got", "want", "detail") if k in mv}
            msc["tags"] = sorted(tg)
            os.makedirs(os.path.join(HERE, "replays"), exist_ok=True)
            path = os.path.join(HERE, "replays", f"{prop}-{r['seed']}.json")
            with open(path, "w") as fh:
                json.dump(msc, fh, indent=1, sort_keys=False, default=repr)
            # replaying the file in a fresh interpreter must reproduce the violation exactly
            import subprocess

            env = {k: v for k, v in os.environ.items() if k != "PYTHONHASHSEED"}
            cp = subprocess.run([sys.executable, os.path.join(HERE, "checkmain.py"), "replay", path],
                                capture_output=True, text=True, env=env, timeout=300)
            if cp.returncode != 1 or "same_class_as_recorded=True" not in cp.stdout:
                harness.append({"index": r["index"], "seed": r["seed"], "harness": "non-replayable",
                                "detail": "replay file did not reproduce in a fresh interpreter: " + cp.stdout[-300:]})
                continue
            new_violations.append((r, mv, path))

    # ---- known findings: replay witnesses
    known_lines = []
    for f in findings:
        if f.get("property") != prop or f.get("status") != "open":
            continue
        wpath = os.path.join(HERE, f.get("witness", ""))
        state = "witness-missing"
        if os.path.isfile(wpath):
            with open(wpath) as fh:
                wsc = json.load(fh)
            st, out = core.execute_scenario(machine, wsc)
            if st == "ok" and out.get("violation"):
                state = "witness-reproduces"
            elif st == "ok":
                state = "witness-no-longer-fails"
            else:
                state = "witness-harness-" + st
        known_lines.append(
            f"KNOWN-FINDING: property={prop} {f['id']} [{state}; {known_hits.get(f['id'], 0)} runs of this batch] {f['summary']}"
        )

    wall = time.monotonic() - t0
    n = len(good)
    coverage = {
        "evaluations": n,
        "distinct_nontrivial": len(sigs),
        "nontrivial_runs": sum(1 for r in good if r.get("nontrivial")),
        "rule": machine.RULE,
        "samples": samples,
        "seeds": {"VERIF_SEED": seed, "first_run_seed": good[0]["seed"] if good else None,
                  "last_run_seed": good[-1]["seed"] if good else None,
                  "first_index": good[0]["index"] if good else None, "last_index": good[-1]["index"] if good else None},
        "runs_per_hour": int(n / wall_batch * 3600) if wall_batch > 0 else 0,
        "simulated_time": {"unit": "logical steps (pySigma has no clock; no simulated clock is built)", "steps": steps},
        "faults_fired": dict(sorted(faults.items())),
        "reach_probes": dict(sorted(probes.items())),
        "batch_digest": core.batch_digest(good),
        "schedule_digest": core.batch_digest(good, "schedule_digest"),
        "components": {"real": machine.REAL, "stub": machine.STUB,
                       "absent_not_simulated": ["threads / tasks", "clocks / timers"]},
        "knobs_unavailable": sorted(unavailable),
        "violating_runs": len(viol),
        "known_finding_hits": known_hits,
        "harness_errors": len(harness),
    }
    extra = getattr(machine, "extra_coverage", None)
    if extra is not None:
        coverage.update(extra(good))
    if write:
        core.write_evidence(prop, tier, seed, coverage, wall, len(new_violations), machine.ASSUMPTIONS)

    for line in known_lines:
        print(line)
    print(f"[sigsim] {prop}: {n} runs in {wall_batch:.1f}s ({coverage['runs_per_hour']}/h), "
          f"{coverage['nontrivial_runs']} non-trivial, {len(sigs)} distinct signatures, "
          f"{len(viol)} violating runs ({sum(known_hits.values())} attributed to known findings), "
          f"{len(harness)} harness errors", flush=True)
    if harness:
        for h in harness[:5]:
            print(f"HARNESS: property={prop} index={h.get('index')} seed={h.get('seed')} {h.get('harness')}: "
                  f"{str(h.get('detail'))[-1500:]}")
    for r, mv, path in new_violations:
        print(f"VIOLATION property={prop} replay={path}")
        print(f"  oracle={mv.get('oracle')} kind={mv.get('kind')} seed={r['seed']} index={r['index']}")
        print(f"  got : {json.dumps(mv.get('got'), default=repr)[:600]}")
        print(f"  want: {json.dumps(mv.get('want'), default=repr)[:600]}")
    if new_violations:
        return 1
    if harness:
        return 2
    return 0


def cmd_replay(args: argparse.Namespace) -> int:
    from sigsim import core

    with open(args.file) as fh:
        sc = json.load(fh)
    prop = sc["property"]
    machine = load_machine(prop)
    preload()
    recorded = sc.get("violation")
    st, out = core.execute_scenario(machine, sc)
    if st != "ok":
        print(f"HARNESS: replay failed: {st}: {out}")
        return 2
    v = out.get("violation")
    if v:
        same = recorded is None or core.violation_class(v) == core.violation_class(recorded)
        print(f"VIOLATION property={prop} replay={os.path.abspath(args.file)}")
        print(f"  oracle={v.get('oracle')} kind={v.get('kind')} same_class_as_recorded={same}")
        print(f"  got : {json.dumps(v.get('got'), default=repr)[:1500]}")
        print(f"  want: {json.dumps(v.get('want'), default=repr)[:1500]}")
        return 1
    print(f"[sigsim] replay of {args.file}: no violation")
    return 0


def cmd_digest(args: argparse.Namespace) -> int:
    from sigsim import core

    machine = load_machine(args.property.upper())
    preload()
    recs = core.run_batch(machine, "quick", args.runs, None, workers=args.workers, start_index=args.start)
    bad = [r for r in recs if "harness" in r]
    out = {"digest": core.batch_digest(recs), "schedule": core.batch_digest(recs, "schedule_digest"),
           "harness": len(bad), "n": len(recs), "violations": sum(1 for r in recs if r.get("violation"))}
    if args.records:
        out["records"] = {str(r["index"]): r.get("digest") for r in recs}
    if bad:
        out["harness_detail"] = str(bad[0])[:1500]
    print(json.dumps(out))
    return 2 if bad else 0


def cmd_one(args: argparse.Namespace) -> int:
    """Execute run <index> directly in this (cold) interpreter - no pristine parent, no preload."""
    from sigsim import core

    machine = load_machine(args.property.upper())
    seed = core.run_seed(machine.PROPERTY, args.index)
    rec = core._one_run((machine, args.index, seed, "quick"))
    print(json.dumps({"index": args.index, "digest": rec["digest"], "violation": bool(rec.get("violation"))}))
    return 0


def main() -> int:
    _reexec_with_fixed_hashseed()
    _setup_path()
    ap = argparse.ArgumentParser(prog="check")
    sub = ap.add_subparsers(dest="cmd")
    p = sub.add_parser("replay")
    p.add_argument("file")
    p = sub.add_parser("selftest")
    p.add_argument("--fast", action="store_true")
    p.add_argument("--props", default="")
    p = sub.add_parser("digest")
    p.add_argument("property")
    p.add_argument("--runs", type=int, default=200)
    p.add_argument("--start", type=int, default=0)
    p.add_argument("--workers", type=int, default=None)
    p.add_argument("--records", action="store_true")
    p = sub.add_parser("one")
    p.add_argument("property")
    p.add_argument("--index", type=int, default=0)
    p = sub.add_parser("run")
    p.add_argument("property")
    p.add_argument("--tier", default=None)
    p.add_argument("--runs", type=int, default=None)
    p.add_argument("--budget", type=float, default=None)
    p.add_argument("--workers", type=int, default=None)
    p.add_argument("--no-evidence", action="store_true")
    argv = sys.argv[1:]
    if argv and argv[0] not in ("replay", "selftest", "digest", "run", "one", "-h", "--help"):
        argv = ["run"] + argv
    args = ap.parse_args(argv)
    if args.cmd == "replay":
        return cmd_replay(args)
    if args.cmd == "digest":
        return cmd_digest(args)
    if args.cmd == "one":
        return cmd_one(args)
    if args.cmd == "selftest":
        from sigsim import selftest

        return selftest.main(args)
    if args.cmd == "run":
        return cmd_check(args)
    ap.print_help()
    return 2

"""
C06 - serialising a rule and loading it again preserves its meaning.

History machine: Load -> (optionally one pipeline transformation, possibly failing half-way) ->
Dump (to_dict + YAML, key order preserved) -> Reload (from_dict) -> Convert both.  Oracle: the
reloaded object has the same dict form and converts to the same queries as the live object; if the
object can no longer be written faithfully, Dump fails with a Sigma error.
"""

from __future__ import annotations

import copy
import re
from random import Random
from typing import Any, Iterable

from sigsim import core, gen

PROPERTY = "C06"
QUICK_RUNS = 6000
RUN_TIMEOUT = 30.0
PRETAG = True  # scenarios are one document (set) and one transformation: tags are precise without minimising
RULE = (
    "seeded generator: a rule (all metadata fields incl. both date spellings, tags, related, custom "
    "attributes; every detection shape and modifier chain), or a correlation rule with its rules, or a "
    "filter with a target rule (the filtered rule is the object under test); history = zero or one "
    "pipeline transformation applied through ProcessingPipeline.apply (any built-in kind with conditions; "
    "optionally the /verif transformation that raises at the j-th detection item, leaving the object "
    "partially transformed); then Dump (to_dict, yaml.safe_dump(sort_keys=False), safe_load), Reload "
    "(from_dict), Convert of the live and of the reloaded object with a pipeline-free SimBackend without "
    "shortcuts. non-trivial = a transformation actually changed the object, or a value with an escape "
    "sequence; distinct = distinct (document kind, transformation kind, outcome class, modifier chains)"
)
REAL = ["sigma.* (all)", "PyYAML (real dump and load)", "pyparsing"]
STUB = ["none"]
ASSUMPTIONS = [
    "byte comparison of queries is sound because the SimBackend variant renders standard precedence "
    "without in-list shortcuts and YAML key order is preserved (sort_keys=False)",
    "the zero-length history is covered as the degenerate case; the value space is not swept the way C05 asks",
]

VALUE_KINDS = ["replace_string", "map_string", "set_value", "case", "convert_type", "regex",
               "value_placeholders", "wildcard_placeholders", "query_expression_placeholders", "hashes_fields"]
FIELD_KINDS = ["field_name_mapping", "field_name_mapping_1n", "field_name_prefix", "field_name_suffix",
               "field_name_prefix_mapping", "field_name_mapping_all_same"]
OTHER_KINDS = ["add_condition", "drop_detection_item", "change_logsource", "set_field", "add_field",
               "remove_field", "set_state", "set_custom_attribute", "nest", "sim_fail_at"]


def _meta(w: Random, d: dict) -> None:
    if gen.chance(w, 0.5):
        d["id"] = gen.pick(w, gen.UUIDS)
    if gen.chance(w, 0.3):
        d["name"] = "rule_name"
    if gen.chance(w, 0.4):
        d["related"] = [{"id": gen.pick(w, gen.UUIDS), "type": gen.pick(w, ["derived", "obsolete", "merged", "renamed", "similar"])}]
    if gen.chance(w, 0.4):
        d["author"] = "A. Author"
    if gen.chance(w, 0.4):
        d["references"] = ["http://a", "http://b"]
    if gen.chance(w, 0.4):
        d["falsepositives"] = ["fp one", "fp two"]
    if gen.chance(w, 0.3):
        d["modified"] = gen.pick(w, ["2024-02-03", "2023/12/1"])
    if gen.chance(w, 0.3):
        d["license"] = "MIT"
    if gen.chance(w, 0.2):
        d["scope"] = ["server"]
    if gen.chance(w, 0.2):
        d["taxonomy"] = "custom_tax"


def generate(streams: core.Streams, tier: str) -> dict:
    w, s, f = streams["workload"], streams["schedule"], streams["fault"]
    kind = gen.pick(w, ["rule", "rule", "rule", "rule", "correlation", "filtered", "filter"])
    special = gen.pick(w, [0.1, 0.3, 0.6])
    docs: list[dict] = []
    if kind == "rule":
        d = gen.gen_rule(w, "R0", tricky=0.15, multi_cond=0.3, special=special, with_meta=0.7)
        _meta(w, d)
        docs = [d]
        target = 0
    elif kind == "correlation":
        k = w.randint(1, 2)
        for i in range(k):
            r = gen.gen_rule(w, f"R{i}", tricky=0.0, special=0.1, multi_cond=0.1,
                             table=[t for t in gen.MODIFIER_TABLE if t[1] in ("any", "str", "list")])
            r["name"] = f"rule_{i}"
            r["id"] = gen.UUIDS[i]
            r.pop("fields", None)
            docs.append(r)
        c = gen.gen_correlation(w, "C0", [(x["name"] if gen.chance(w, 0.5) else x["id"]) for x in docs],
                                rid=gen.UUIDS[8], name="corr", generate=gen.pick(w, [None, True, False]))
        if gen.chance(w, 0.4) and "group-by" in c["correlation"]:
            c["correlation"]["aliases"] = {"al": {docs[0]["name"]: "User"}}
            c["correlation"]["group-by"] = ["al"]
        if c["correlation"]["type"] in ("temporal", "temporal_ordered") and gen.chance(w, 0.4) and k == 2:
            a_, b_ = docs[0]["name"], docs[1]["name"]
            # round 9: also negated and parenthesised groups (precedence must survive the writer)
            c["correlation"]["condition"] = gen.pick(w, [
                f"{a_} and not {b_}", f"{a_} or {b_}", f"not ({a_} or {b_})", f"{a_} and not ({b_} or {a_})",
                f"({a_} or {b_}) and not ({a_} and {b_})", f"not {a_} and {b_}"])
            c["correlation"]["rules"] = [docs[0]["name"], docs[1]["name"]]
        if gen.chance(w, 0.25):
            c["correlation"]["type"] = gen.pick(w, ["value_percentile", "value_median"])
            c["correlation"]["condition"] = {gen.pick(w, ["gte", "lt"]): w.randint(1, 9), "field": gen.pick(w, gen.FIELDS)}
            if c["correlation"]["type"] == "value_percentile":
                c["correlation"]["condition"]["percentile"] = gen.pick(w, [0, 50, 95, 99])
        _meta(w, c)
        c.pop("id", None)
        c["id"] = gen.UUIDS[8]
        c["name"] = "corr"
        docs.append(c)
        target = len(docs) - 1
    else:
        r = gen.gen_rule(w, "R0", tricky=0.1, special=special, multi_cond=0.3)
        r["name"] = "rule_0"
        fl = gen.gen_filter(w, "F0", gen.pick(w, ["any", ["rule_0"], "rule_0", [], ["some_other_rule"], ["some_other_rule", "rule_0"]]), copy.deepcopy(r["logsource"]),
                            names=["selection", "flt", "sel_2", "1st", "_under"])
        if kind == "filter":  # the filter object itself is written and loaded again
            _meta(w, fl)
            for nm in [k for k in fl["filter"] if k not in ("rules", "condition")]:
                if gen.chance(w, 0.5):
                    fl["filter"][nm] = gen.gen_detection(w, special=special)
        docs = [fl, r]
        target = 1 if kind == "filtered" else 0
    transformation = None
    if kind != "filter" and gen.chance(s, 0.7):
        pool = VALUE_KINDS * 2 + FIELD_KINDS * 2 + OTHER_KINDS
        tk = gen.pick(s, pool)
        if tk == "sim_fail_at":
            transformation = {"type": "sim_fail_at", "fail_at": f.randint(1, 3)}
        else:
            transformation = gen.gen_transformation(s, tk, 0, 0, "t")
            transformation.pop("id", None)
            # conditions that refer to other items make no sense in a single-item pipeline
            for k2 in ("rule_conditions", "detection_item_conditions", "field_name_conditions"):
                if k2 in transformation:
                    transformation[k2] = [c for c in transformation[k2]
                                          if c["type"] not in ("processing_item_applied", "processing_state")]
                    if not transformation[k2]:
                        del transformation[k2]
    pvars = {"admins": ["root", "adm*"], "servers": "srv1", "num_var": [1, 2]} if gen.chance(s, 0.7) else {}
    # drawn last: less common but loadable document features of the object that is written
    t = docs[target]
    if "logsource" in t and gen.chance(w, 0.1):
        t["logsource"]["vendor_stage"] = "prod"  # a custom log source attribute
    if gen.chance(w, 0.1):
        # a YAML timestamp (the loader accepts datetime objects); '@DT@' is turned into one when loading
        t[gen.pick(w, ["date", "modified"])] = "@DT@2023-05-06 10:00:00"
    if "detection" in t and gen.chance(w, 0.06):
        nm = next(k for k in t["detection"] if k != "condition")
        if isinstance(t["detection"][nm], dict):
            t["detection"][nm]["EmptyList"] = []  # an empty value list
    if "detection" in t and gen.chance(w, 0.05):
        nm = next(k for k in t["detection"] if k != "condition")
        if isinstance(t["detection"][nm], dict):
            t["detection"][nm]["EventID|re"] = gen.pick(w, [4624, 1.5, [1, "a.*"]])  # a YAML number as regular expression
    if kind == "rule" and gen.chance(w, 0.05):
        # round 9: two items of one detection carry the same modifier chain and a field mapping gives them
        # the same name - the writer must merge them faithfully or refuse ('neq' items cannot be merged)
        fa, fb = w.sample(gen.FIELDS, 2)
        mods = gen.pick(w, ["neq|all", "all", "neq", "contains|all", "neq|all"])
        t["detection"] = {"selection": {f"{fa}|{mods}": gen.pick(w, [[1, 2], ["a", "b"]]),
                                        f"{fb}|{mods}": gen.pick(w, [[3, 4], ["c", "d"]])},
                          "condition": "selection"}
        transformation = {"type": "field_name_mapping", "mapping": {fa: "merged", fb: "merged"}}
    return {"kind": kind, "documents": docs, "target": target, "transformation": transformation, "vars": pvars,
            "with_source": gen.chance(s, 0.15)}


# ------------------------------------------------------------------------------------------------


def _dt(x: Any) -> Any:
    import datetime

    if isinstance(x, str) and x.startswith("@DT@"):
        return datetime.datetime.strptime(x[4:], "%Y-%m-%d %H:%M:%S")
    if isinstance(x, dict):
        return {k: _dt(v) for k, v in x.items()}
    if isinstance(x, list):
        return [_dt(v) for v in x]
    return x


def _load(sc: dict, docs: list[dict], first: bool = False) -> Any:
    from sigma.exceptions import SigmaRuleLocation
    from sigsim import world

    docs = [_dt(d) for d in docs]
    if first and sc.get("with_source"):
        # the way load_ruleset loads: every rule knows the file it came from (the written dict is loaded
        # again without one: what a dict form says must not depend on where the rule was read)
        return world.load_collection(docs, source=SigmaRuleLocation("/sigsim/rules/r.yml"))
    return world.load_collection(docs)


def _target(sc: dict, coll: Any) -> Any:
    t = sc["documents"][sc["target"]]["title"]
    return next(r for r in coll.rules if r.title == t)


def execute(scenario: dict) -> dict:
    import yaml
    from sigma.exceptions import SigmaError
    from sigma.processing.pipeline import ProcessingPipeline
    from sigsim import simbackend, world

    sc = scenario
    faults: dict[str, int] = {}
    probes: dict[str, int] = {}
    log: dict[str, Any] = {}
    violation = None
    outcome = "?"
    try:
        coll = _load(sc, sc["documents"], first=True)
        if sc["kind"] == "filter":
            fcoll = world.load_collection(sc["documents"], collect_filters=True)
    except Exception as e:  # not loadable: outside the property
        return {"violation": None, "log": {"load": world.exc_record(e)}, "faults": faults, "probes": {"unloadable": 1},
                "steps": 1, "signature": "unloadable:" + type(e).__name__, "nontrivial": False}
    x = fcoll.filters[0] if sc["kind"] == "filter" else _target(sc, coll)
    before = world.capture(lambda: x.to_dict())
    changed = False
    steps = 1
    if sc.get("transformation") is not None:
        steps += 1
        spec = {"vars": sc.get("vars", {}), "transformations": [copy.deepcopy(sc["transformation"])]}
        try:
            p = ProcessingPipeline.from_dict(spec)
        except Exception as e:
            return {"violation": None, "log": {"pipeline": world.exc_record(e)}, "faults": faults,
                    "probes": {"pipeline_not_buildable": 1}, "steps": steps,
                    "signature": "nopipeline", "nontrivial": False}
        r = world.capture(lambda: p.apply(x) and "applied")
        log["transform"] = r if "ok" not in r else "applied"
        tkind = sc["transformation"]["type"]
        if "ok" in r:
            core.merge_counts(faults, {"transformation:" + tkind: 1})
            changed = any(p.applied)
        else:
            core.merge_counts(faults, {"transformation_raised:" + tkind: 1})
            if tkind == "sim_fail_at":
                probes["partially_transformed_object"] = 1
            changed = True
    # ---- Dump
    steps += 1
    try:
        dumped = x.to_dict()
        text = yaml.safe_dump(dumped, sort_keys=False)
        dumped = yaml.safe_load(text)
        dump_exc = None
    except Exception as e:
        dump_exc = e
    if dump_exc is not None:
        outcome = "dump-raises:" + type(dump_exc).__name__
        log["dump"] = world.exc_record(dump_exc)
        if not isinstance(dump_exc, SigmaError):
            violation = {"oracle": "dump-fails-with-sigma-error-only", "kind": type(dump_exc).__name__,
                         "got": world.exc_record(dump_exc), "want": "a Sigma error or a faithful dict"}
        else:
            probes["dump_refused_with_sigma_error"] = 1
    else:
        log["dumped"] = dumped
        # ---- Reload
        steps += 1
        others = [d for i, d in enumerate(sc["documents"]) if i != sc["target"] and "filter" not in d]

        def reload() -> Any:
            if sc["kind"] == "filter":
                from sigma.filters import SigmaFilter

                y2 = SigmaFilter.from_dict(copy.deepcopy(dumped))
                c3 = _load(sc, [copy.deepcopy(dumped)] + copy.deepcopy(others))
                return c3, y2
            c2 = _load(sc, copy.deepcopy(others) + [copy.deepcopy(dumped)])
            return c2, next(r for r in c2.rules if r.title == x.title)

        try:
            coll2, y = reload()
            reload_exc = None
        except Exception as e:
            reload_exc = e
        if reload_exc is not None:
            outcome = "reload-raises:" + type(reload_exc).__name__
            violation = {"oracle": "dumped-dict-loads-again", "kind": "reload-raises:" + type(reload_exc).__name__,
                         "got": world.exc_record(reload_exc), "want": "loadable", "dumped": dumped}
        else:
            again = world.capture(lambda: yaml.safe_load(yaml.safe_dump(y.to_dict(), sort_keys=False)))
            if again.get("ok") != world.normalise(dumped):
                outcome = "dict-differs"
                violation = {"oracle": "reloaded-object-has-same-dict-form", "kind": "dict-differs",
                             "got": again, "want": {"ok": world.normalise(dumped)}}
            else:
                steps += 2
                # ---- Convert both (the live collection and the reloaded one)
                def conv(c: Any) -> dict:
                    b = simbackend.SimBackendPlain(collect_errors=True)
                    res = world.capture(lambda: b.convert(c))
                    res["errors"] = world.errors_record(b.errors)
                    return res

                live = conv(coll)
                rel = conv(coll2)
                log["live"] = live
                same = _strip(live) == _strip(rel)
                if not same and isinstance(live.get("ok"), list) and isinstance(rel.get("ok"), list):
                    l2, r2 = dict(_strip(live)), dict(_strip(rel))
                    l2["ok"] = [canon_query(x) for x in live["ok"]]
                    r2["ok"] = [canon_query(x) for x in rel["ok"]]
                    if l2 == r2:
                        same = True
                        probes["equal_modulo_and_or_operand_order"] = 1
                if not same:
                    outcome = "queries-differ"
                    violation = {"oracle": "reloaded-object-converts-to-same-queries", "kind": "queries-differ",
                                 "got": rel, "want": live, "dumped": dumped}
                else:
                    outcome = "faithful"
                    probes["faithful_round_trip"] = 1
    vals = core.jdump(sc["documents"][sc["target"]].get("detection", {}))
    esc = "\\\\" in vals
    if esc:
        probes["value_with_escape_sequence"] = 1
    tk = (sc.get("transformation") or {}).get("type", "none")
    mods = sorted(set(re.findall(r"\|([a-z0-9|]+)\"", vals)))
    sig = core.digest([sc["kind"], tk, outcome, mods[:6]])
    return {"violation": violation, "log": log, "faults": faults, "probes": probes, "steps": steps,
            "signature": sig, "nontrivial": changed or esc}


def _split_top(expr: str, sep: str) -> list[str]:
    """split at top-level occurrences of sep (outside quotes, /regex/ literals and parentheses)"""
    parts, cur, depth, i, n = [], [], 0, 0, len(expr)
    in_str = in_re = False
    while i < n:
        ch = expr[i]
        if in_str:
            cur.append(ch)
            if ch == "\\" and i + 1 < n:
                cur.append(expr[i + 1])
                i += 1
            elif ch == '"':
                in_str = False
        elif in_re:
            cur.append(ch)
            if ch == "\\" and i + 1 < n:
                cur.append(expr[i + 1])
                i += 1
            elif ch == "/":
                in_re = False
        elif ch == '"':
            in_str = True
            cur.append(ch)
        elif ch == "/" and "".join(cur[-2:]) in ("=~", "!~", "w("):
            in_re = True
            cur.append(ch)
        elif ch == "(":
            depth += 1
            cur.append(ch)
        elif ch == ")":
            depth -= 1
            cur.append(ch)
        elif depth == 0 and expr.startswith(sep, i):
            parts.append("".join(cur))
            cur = []
            i += len(sep)
            continue
        else:
            cur.append(ch)
        i += 1
    parts.append("".join(cur))
    return parts


def canon_query(q: Any) -> Any:
    """canonical form of a SimBackendPlain query modulo the operand order of AND / OR (commutative):
    writing items with duplicate keys as one 'key|all' item legitimately moves operands"""
    if not isinstance(q, str):
        return q
    q = q.strip()
    ors = _split_top(q, " OR ")
    if len(ors) > 1:
        return "OR(" + ",".join(sorted(canon_query(x) for x in ors)) + ")"
    ands = _split_top(q, " AND ")
    if len(ands) > 1:
        return "AND(" + ",".join(sorted(canon_query(x) for x in ands)) + ")"
    if q.startswith("NOT "):
        return "NOT(" + canon_query(q[4:]) + ")"
    if q.startswith("(") and q.endswith(")") and len(_split_top(q[1:-1], "\x00")) == 1:
        inner = q[1:-1]
        depth = 0
        balanced = True
        for ch in inner:
            depth += ch == "("
            depth -= ch == ")"
            if depth < 0:
                balanced = False
                break
        if balanced:
            return canon_query(inner)
    return q


def _strip(res: dict) -> Any:
    """error messages embed object reprs (parents, sources): compare class + rule, and the queries"""
    out = {"ok": res.get("ok"), "exc": res.get("exc")}
    # which rules fail, not with which error: a rule with two unconvertible items fails on whichever
    # comes first, and writing duplicate keys as one 'key|all' item legitimately moves operands
    out["errors"] = sorted(str(e.get("rule")) for e in res.get("errors", []))
    return out


# ------------------------------------------------------------------------------------------------
# known-finding tags: pure predicates over scenario content


def _items_of(doc: dict) -> list[tuple[str, Any]]:
    out = []
    det = doc.get("detection", {})
    for name, v in det.items():
        if name == "condition":
            continue
        maps = [v] if isinstance(v, dict) else [m for m in v if isinstance(m, dict)] if isinstance(v, list) else []
        for m in maps:
            out.extend(m.items())
        if isinstance(v, list):
            for m in v:
                if not isinstance(m, dict):
                    out.append(("", m))
        elif not isinstance(v, dict):
            out.append(("", v))
    return out


def _has_backslash(doc: dict) -> bool:
    return any("\\" in str(x) for _, v in _items_of(doc) for x in (v if isinstance(v, list) else [v]))


def tags(sc: dict, violation: dict) -> set[str]:
    t: set[str] = set()
    doc = sc["documents"][sc["target"]]
    tr = sc.get("transformation") or {}
    tk = tr.get("type")
    items = _items_of(doc)
    if sc["kind"] == "filtered":
        fl = sc["documents"][0]
        items = items + _items_of({"detection": {k: v for k, v in fl["filter"].items() if k not in ("rules",)}})
    value_kinds = set(VALUE_KINDS) | {"nest"}
    if tk in value_kinds:
        modified = any("|" in k for k, _ in items)
        type_changing = tk in ("regex", "set_value", "convert_type", "query_expression_placeholders",
                               "wildcard_placeholders", "value_placeholders", "hashes_fields", "nest",
                               "map_string", "replace_string", "case")
        if modified or type_changing:
            t.add("value-transform-on-modified-item-or-changing-type")
    if tk in ("field_name_mapping", "nest", "field_name_prefix_mapping") and any(
            isinstance(v, list) for v in (tr.get("mapping") or {}).values()) or tk == "nest":
        t.add("one-to-many-field-mapping")
    if tk in ("add_condition", "nest"):
        t.add("condition-rewritten-by-pipeline")
    if _has_backslash(doc) or (sc["kind"] == "filtered" and _has_backslash({"detection": sc["documents"][0]["filter"]})):
        t.add("escaped-backslash-or-backslash-before-wildcard")
    return t


def escape(sc: dict, finding: dict) -> Iterable[dict]:
    """Try to leave the quarantine: remove the tagged feature and see whether the run still fails."""
    ftags = set(finding.get("tags", []))
    c = copy.deepcopy(sc)
    doc = c["documents"][c["target"]]
    if "escaped-backslash-or-backslash-before-wildcard" in ftags:
        def fix(v: Any) -> Any:
            if isinstance(v, str):
                return v.replace("\\", "")
            if isinstance(v, list):
                return [fix(x) for x in v]
            if isinstance(v, dict):
                return {k: fix(x) for k, x in v.items()}
            return v

        doc["detection"] = {k: (fix(v) if k != "condition" else v) for k, v in doc["detection"].items()}
        yield c
    if "value-transform-on-modified-item-or-changing-type" in ftags:
        c2 = copy.deepcopy(sc)
        d2 = c2["documents"][c2["target"]]
        det = d2.get("detection", {})
        for name, v in list(det.items()):
            if name == "condition":
                continue
            if isinstance(v, dict):
                det[name] = {k.split("|")[0]: (x if not isinstance(x, bool) else "b") for k, x in v.items()}
            elif isinstance(v, list):
                det[name] = [({k.split("|")[0]: x for k, x in m.items()} if isinstance(m, dict) else m) for m in v]
        if c2["transformation"] and c2["transformation"]["type"] in ("replace_string", "case", "map_string"):
            yield c2


def shrink(sc: dict) -> Iterable[dict]:
    if sc.get("transformation") is not None:
        c = copy.deepcopy(sc)
        c["transformation"] = None
        yield c
        for k in ("rule_conditions", "detection_item_conditions", "field_name_conditions", "rule_cond_op", "rule_cond_not"):
            if k in sc["transformation"]:
                c = copy.deepcopy(sc)
                del c["transformation"][k]
                yield c
        if sc["transformation"]["type"] == "nest" and len(sc["transformation"]["items"]) >= 1:
            for it in sc["transformation"]["items"]:
                c = copy.deepcopy(sc)
                c["transformation"] = copy.deepcopy(it)
                c["transformation"].pop("id", None)
                yield c
    if sc.get("vars"):
        c = copy.deepcopy(sc)
        c["vars"] = {}
        yield c
    ti = sc["target"]
    doc = sc["documents"][ti]
    for k in list(doc):
        if k not in ("title", "logsource", "detection", "correlation", "filter", "name", "id"):
            c = copy.deepcopy(sc)
            del c["documents"][ti][k]
            yield c
    det = doc.get("detection")
    if det:
        names = [k for k in det if k != "condition"]
        if isinstance(det["condition"], list):
            for j in range(len(det["condition"])):
                c = copy.deepcopy(sc)
                c["documents"][ti]["detection"]["condition"] = det["condition"][j]
                yield c
        for nm in names:
            if len(names) > 1:
                c = copy.deepcopy(sc)
                del c["documents"][ti]["detection"][nm]
                c["documents"][ti]["detection"]["condition"] = [x for x in names if x != nm][0]
                yield c
            v = det[nm]
            if isinstance(v, dict) and len(v) > 1:
                for k in list(v):
                    c = copy.deepcopy(sc)
                    del c["documents"][ti]["detection"][nm][k]
                    yield c
            if isinstance(v, list) and len(v) > 1:
                for j in range(len(v)):
                    c = copy.deepcopy(sc)
                    del c["documents"][ti]["detection"][nm][j]
                    yield c
            if isinstance(v, dict):
                for k, val in v.items():
                    if isinstance(val, list) and len(val) > 1:
                        for j in range(len(val)):
                            c = copy.deepcopy(sc)
                            del c["documents"][ti]["detection"][nm][k][j]
                            yield c
        if isinstance(det["condition"], str) and det["condition"] not in names and names:
            c = copy.deepcopy(sc)
            c["documents"][ti]["detection"]["condition"] = names[0]
            yield c
    if sc["kind"] == "filtered":
        fl = sc["documents"][0]["filter"]
        fnames = [k for k in fl if k not in ("rules", "condition")]
        for nm in fnames:
            if len(fnames) > 1:
                c = copy.deepcopy(sc)
                del c["documents"][0]["filter"][nm]
                c["documents"][0]["filter"]["condition"] = [x for x in fnames if x != nm][0]
                yield c

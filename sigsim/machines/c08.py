"""
C08 - a failing rule never changes other rules' output; every query is accounted for.

Fault-sequence machine: any subset of a batch fails, at any stage, in any position.  Oracle =
accounting against the rules converted alone (each in its own fresh world with the same fault plan).
"""

from __future__ import annotations

import copy
import re
from random import Random
from typing import Any, Iterable

from sigsim import core, gen

PROPERTY = "C08"
QUICK_RUNS = 4000
RUN_TIMEOUT = 40.0
RULE = (
    "seeded generator: collection of 1-8 detection rules (single/multi condition, optional output-disabled "
    "rules, 0-2 filters, in 30% of the batches 1-2 correlation rules over some of them), one backend variant with or without user pipeline, a fault plan keyed by rule "
    "title (pipeline failure item, sim_fail_at partial application, post-processing failure, unresolved "
    "placeholder, unbound bool/CIDR keyword, missing detection, injected Sigma error or NotImplementedError "
    "at the n-th call of a conversion hook incl. finish_query/finalize_query); converted once with "
    "collect_errors=True and once with False; reference = every rule loaded freshly and converted alone in "
    "its own fresh world with the same plan. non-trivial = >=1 failing and >=1 succeeding rule; distinct = "
    "distinct (per-rule outcome class sequence, fault kinds fired, backend class, pipeline yes/no)"
)
REAL = ["sigma.* (all)", "PyYAML", "pyparsing", "jinja2"]
STUB = ["none (faults are raised by SimBackend hooks and /verif-defined transformations)"]
ASSUMPTIONS = [
    "documents the loader rejects when loaded alone are removed from the scenario before the batch: "
    "a rule that cannot be loaded never reaches the backend",
    "correlation rules take part as further members of 30% of the batches; equality with the rule converted alone is "
    "asserted for rules no correlation refers to, the accounting for every member (DESIGN 8.1)",
    "with filters present, 'the rule alone' means the rule together with the same filters",
    "pipelines carry no finalizers here (output would not be a list of queries; that is C14)",
]

CLASSES = ["SimBackend", "SimBackendNE", "SimBackendIn"]
SIGMA_EXCS = ["SigmaValueError", "SigmaFeatureNotSupportedByBackendError", "SigmaConversionError",
              "SigmaTransformationError"]
STAGES = ["convert_condition_and", "convert_condition_or", "convert_condition_not",
          "convert_condition_field_eq_val_str", "convert_condition_field_eq_val_num",
          "convert_condition_val_str", "convert_value_str", "escape_and_quote_field",
          "finish_query", "finalize_query"]


def generate(streams: core.Streams, tier: str) -> dict:
    w, s, f = streams["workload"], streams["schedule"], streams["fault"]
    n = w.randint(1, 8)
    names_pool = w.sample(gen.NAMES_PLAIN, 4)
    docs = []
    for i in range(n):
        if i > 0 and gen.chance(w, 0.3):
            d = copy.deepcopy(docs[w.randrange(len(docs))])
            d["title"] = f"R{i}"
            d.pop("id", None)
            d.pop("name", None)
        else:
            d = gen.gen_rule(w, f"R{i}", names_pool=names_pool, tricky=0.05, multi_cond=0.3)
        if gen.chance(w, 0.4):
            d["id"] = gen.UUIDS[i]
        if gen.chance(w, 0.3):
            d["name"] = f"rule_{i}"
        docs.append(d)
    # a rule that occurs twice, the copies differing only in a custom attribute (equal by value)
    if n >= 2 and gen.chance(w, 0.12):
        src = w.randrange(len(docs))
        twin = copy.deepcopy(docs[src])
        twin["custom_twin"] = "second copy"
        twin.pop("id", None)
        twin.pop("name", None)
        docs.insert(w.randint(0, len(docs)), twin)
    # natural fault kinds written into documents
    for d in docs:
        r = f.random()
        det = d["detection"]
        names = [k for k in det if k != "condition"]
        if r < 0.07:  # condition naming a missing detection
            c = "missing_det and " + names[0]
            det["condition"] = c if not isinstance(det["condition"], list) else det["condition"] + [c]
        elif r < 0.13:  # unbound boolean keyword
            det["kwbool"] = [True]
            det["condition"] = names[0] + " or kwbool"
        elif r < 0.18:  # unresolved placeholder (no transformation may handle this name)
            det["ph"] = {"User|expand": "%never_defined%"}
            det["condition"] = names[0] + " and ph"
        elif r < 0.23:  # unsupported by backend: fieldref|startswith has no expression in SimBackend
            det["unsupp"] = {"Image|fieldref|startswith": "User"}
            det["condition"] = names[0] + " or unsupp"
        elif r < 0.28:  # a keyword (no field) whose value type the backends cannot render without a field
            det["kwtype"] = gen.pick(f, [{"|windash": " -enc"}, {"|base64offset|contains": "foo"}, [None], {"|gt": 5}])
            det["condition"] = names[0] + " or kwtype"
    filters = []
    for i in range(w.choice([0, 0, 0, 1, 1, 2])):
        target: Any = "any" if gen.chance(w, 0.5) else [
            (d.get("name") or d.get("id") or "nonexistent") for d in w.sample(docs, min(len(docs), 2))]
        ls = copy.deepcopy(gen.pick(w, docs)["logsource"]) if gen.chance(w, 0.7) else {"product": "windows"}
        filters.append(gen.gen_filter(w, f"F{i}", target, ls))
    pipeline = None
    if gen.chance(w, 0.7):
        pipeline = gen.gen_pipeline(w, tag="p", n_items=(1, 4), post=0.4, final=0.0)
        if gen.chance(f, 0.25):
            pipeline["transformations"].append(
                {"type": "sim_fail_at", "fail_at": f.randint(1, 3), "rule_conditions": [gen.rule_condition(f)]})
        if gen.chance(f, 0.25):
            pipeline.setdefault("postprocessing", []).append(
                {"type": "sim_fail_post", "titles": f.sample([d["title"] for d in docs], 1)})
        if gen.chance(f, 0.25):
            pipeline["transformations"].append(
                {"type": "rule_failure", "message": "planned rule failure",
                 "rule_conditions": [{"type": "logsource", "product": gen.pick(f, gen.PRODUCTS)}]})
    faults = []
    for d in docs:
        if gen.chance(f, 0.25):
            exc = "NotImplementedError" if gen.chance(f, 0.15) else gen.pick(f, SIGMA_EXCS)
            faults.append({"rule": d["title"], "stage": gen.pick(f, STAGES), "nth": f.randint(1, 3), "exc": exc})
            if exc == "NotImplementedError" and gen.chance(f, 0.4):
                faults[-1]["bare"] = True  # raise NotImplementedError without arguments
    disabled = [d["title"] for d in docs if gen.chance(s, 0.1)]
    sc = {
        "cls": gen.pick(s, CLASSES),
        "format": gen.pick(s, ["default", "default", "alt", "st"]),
        "pipeline": pipeline,
        "documents": docs,
        "filters": filters,
        "faults": faults,
        "disabled": disabled,
    }
    # correlation rules over some of the rules (drawn last: everything above keeps its value for a seed).
    # They always ask for generation, so the referenced rules keep their own output.
    corrs: list[dict] = []
    if gen.chance(w, 0.3):
        unique = [d for d in docs if sum(1 for x in docs if x["title"] == d["title"]) == 1]
        for j in range(w.choice([1, 1, 2])):
            if not unique:
                break
            refs = w.sample(unique, min(len(unique), w.randint(1, 2)))
            for d in refs:
                d.setdefault("name", "ref_" + d["title"].lower())
            targets = [d["name"] for d in refs]
            if corrs and gen.chance(w, 0.3):
                targets.append(corrs[-1]["name"])
            corrs.append(gen.gen_correlation(w, f"K{j}", targets, name=f"corr_{j}", generate=True))
    sc["correlations"] = corrs
    # the same collection object converted once more by the same backend (drawn last); the last pass is judged
    sc["passes"] = 2 if gen.chance(s, 0.2) else 1
    # ... the first time without the injected faults, so that rules fail only in the pass that is judged
    sc["first_pass_clean"] = sc["passes"] == 2 and gen.chance(s, 0.5)
    # a collection 'action: global' document in front of the rules: its values (here the field list) are
    # merged into every rule that follows, in the batch as well as when a rule is loaded alone
    sc["global_doc"] = {"action": "global", "fields": ["gf1", "gf2"]} if gen.chance(w, 0.15) else None
    if pipeline is not None and len(docs) >= 2 and gen.chance(w, 0.12):
        # several rules with a Hashes field that the hashes_fields transformation splits up: valid
        # algorithms in most rules, a disallowed one in one rule (that rule fails)
        hs = ["MD5=0123456789abcdef0123456789abcdef", "SHA1=0123456789abcdef0123456789abcdef01234567",
              "SHA256=" + "ab" * 32, "IMPHASH=0123456789ABCDEF0123456789ABCDEF"]
        for k, d in enumerate(w.sample(docs, min(len(docs), 3))):
            if "hsel" in d["detection"]:
                continue
            first = next(x for x in d["detection"] if x != "condition")
            d["detection"]["hsel"] = {"Hashes|contains": [hs[(k + w.randrange(4)) % 4]]}
            d["detection"]["condition"] = f"{first} or hsel"
        pipeline["transformations"].append({"type": "hashes_fields", "field_prefix": "File",
                                            "valid_hash_algos": ["MD5", "SHA1", "SHA256"]})
    return sc


# ------------------------------------------------------------------------------------------------


def _backend(sc: dict, collect: bool) -> Any:
    from sigsim import simbackend, world

    cls = simbackend.CLASSES[sc["cls"]]
    b = cls(world.build_pipeline(sc.get("pipeline")), collect_errors=collect)
    b.set_faults(sc.get("faults", []))
    return b


def _load(sc: dict, docs: list[dict], corrs: list[dict] | None = None) -> Any:
    from sigsim import world

    glob = [sc["global_doc"]] if sc.get("global_doc") else []
    coll = world.load_collection(list(sc.get("filters", [])) + glob + docs + list(corrs or []))
    for r in coll.rules:
        if r.title in sc.get("disabled", []):
            r.disable_output()
    return coll


def _convert_passes(sc: dict, b: Any, coll: Any) -> dict:
    """convert() as many times as the scenario says, with the same backend and the same collection
    object; result and error records of the last pass."""
    from sigsim import world

    res: dict = {}
    n = int(sc.get("passes", 1))
    for k in range(n):
        b.set_faults([] if (sc.get("first_pass_clean") and k < n - 1) else sc.get("faults", []))
        start = len(b.errors)
        res = world.capture(lambda: b.convert(coll, sc["format"]))
        res["errors"] = world.errors_record(b.errors, start)
    return res


def _alone(args: tuple[dict, int]) -> dict:
    """Fresh world: one rule (plus the filters), fresh backend, fresh pipeline, same fault plan."""
    from sigsim import world

    sc, i = args
    doc = sc["documents"][i]
    try:
        coll = _load(sc, [doc])
    except Exception as e:  # load rejection: outside this property
        return {"unloadable": world.exc_record(e)}
    b = _backend(sc, True)
    res = _convert_passes(sc, b, coll)
    res["fired"] = [f"{x['stage']}:{x['exc']}" for x in b.fault_fired]
    res["swapped"] = b.probe_swapped_raise
    return res


def _strict(args: dict) -> dict:
    from sigsim import world

    sc = args
    docs = sc["documents"]
    b = _backend(sc, False)
    try:
        coll = _load(sc, docs, sc.get("correlations"))
    except Exception as e:
        return {"loadfail": world.exc_record(e)}
    if int(sc.get("passes", 1)) > 1:
        # a raising first pass would stop at the first failing rule and leave the later rules unprocessed:
        # the earlier pass is made by a collecting backend (as in the world it is compared with), only the
        # pass that is judged raises
        b1 = _backend(sc, True)
        b1.set_faults([] if sc.get("first_pass_clean") else sc.get("faults", []))
        for _ in range(int(sc["passes"]) - 1):
            world.capture(lambda: b1.convert(coll, sc["format"]))
        b.set_faults(sc.get("faults", []))
        return world.capture(lambda: b.convert(coll, sc["format"]))
    res = _convert_passes(sc, b, coll)
    res.pop("errors", None)
    return res


def execute(scenario: dict) -> dict:
    from sigsim import simbackend, world

    sc = scenario
    alone: list[dict] = []
    for i in range(len(sc["documents"])):
        st, res = core.run_in_fork(_alone, (sc, i), 15.0)
        if st != "ok":
            raise core.HarnessError(f"alone world failed: {st}: {res}")
        alone.append(res)
    # Outside the property: documents the loader rejects, and rules whose conversion *alone* ends
    # in an exception that is neither a Sigma error nor NotImplementedError (e.g. the TypeError of
    # a "can't happen" branch after set_value:null on a keyword) - not one of the listed failure
    # stages.  If such an exception only shows up in the batch, the comparison below reports it.
    def _listed(a: dict) -> bool:
        # "value type unsupported by the backend" is a listed stage: the TypeError of the value type
        # dispatch counts (and must be collected), other non-Sigma exceptions do not
        return "unloadable" not in a and ("ok" in a or a.get("sigma") or a.get("exc") == "NotImplementedError"
                                          or (a.get("exc") == "TypeError" and "Unexpected value type" in str(a.get("msg")))
                                          # a timestamp part the backend's table does not know (same stage)
                                          or "TimestampPart" in str(a.get("msg"))
                                          # an injected fault fired: whatever comes out, its cause is a listed stage
                                          or bool(a.get("fired")))

    keep = [i for i, a in enumerate(alone) if _listed(a)]
    dropped = sum(1 for a in alone if "unloadable" in a)
    unlisted = len(alone) - len(keep) - dropped
    sc_eff = dict(sc)
    sc_eff["documents"] = [sc["documents"][i] for i in keep]
    alone = [alone[i] for i in keep]
    # correlation rules survive only if everything they refer to is still there
    known = {d.get("name") for d in sc_eff["documents"]} - {None}
    corrs: list[dict] = []
    for c in sc.get("correlations", []):
        if all(t in known for t in c["correlation"]["rules"]):
            corrs.append(c)
            known.add(c["name"])
    sc_eff["correlations"] = corrs
    faults: dict[str, int] = {}
    probes: dict[str, int] = {}
    if dropped:
        probes["documents_dropped_as_unloadable"] = dropped
    if unlisted:
        probes["rules_dropped_unlisted_exception_alone"] = unlisted
    if not keep:
        return {"violation": None, "log": {"alone": alone}, "faults": faults, "probes": probes, "steps": 0,
                "signature": "empty", "nontrivial": False}
    st, strict = core.run_in_fork(_strict, sc_eff, 15.0)
    if st != "ok":
        raise core.HarnessError(f"strict world failed: {st}: {strict}")
    # ---- collect mode in this (so far pristine) process
    b = _backend(sc_eff, True)
    violation = None
    try:
        coll = _load(sc_eff, sc_eff["documents"], corrs)
        loaded = True
    except Exception as e:
        loaded = False
        got = {"loadfail": world.exc_record(e)}
        if corrs:
            # the generator's correlation documents are meant to be loadable; if they are not, that
            # is outside this property (C09 owns reference resolution): go on without them
            try:
                coll = _load(sc_eff, sc_eff["documents"])
                loaded = True
                probes["correlations_dropped_batch_unloadable"] = 1
                corrs = []
                sc_eff["correlations"] = []
            except Exception:
                pass
    if loaded:
        got = _convert_passes(sc_eff, b, coll)
    # ---- reference from the alone worlds
    want_queries: list[Any] = []
    want_errors: list[dict] = []
    classes = []
    aborting = None  # first rule whose alone conversion raises a non-collectable exception
    for d, a in zip(sc_eff["documents"], alone):
        for k in a.get("fired", []):
            core.merge_counts(faults, {"backend:" + k: 1})
        if a.get("swapped"):
            probes["raised_while_class_templates_swapped"] = probes.get("raised_while_class_templates_swapped", 0) + a["swapped"]
        if "ok" in a:
            if a["errors"]:
                want_errors.extend(a["errors"])
                classes.append("fail:" + a["errors"][0]["exc"])
                _natural_fault(faults, a["errors"][0]["msg"])
            else:
                classes.append("ok" if a["ok"] else "ok-no-output")
            want_queries.extend(a["ok"] if isinstance(a["ok"], list) else [a["ok"]])
        else:
            classes.append("raise:" + a["exc"])
            _natural_fault(faults, a.get("msg", ""))
            if aborting is None:
                aborting = a
    # ---- accounting on each alone world itself (the reference must obey the property too):
    # a failing rule contributes no query and exactly one record; an output-disabled rule
    # contributes nothing; every other rule contributes one query per condition.
    if aborting is None:
        drops = "drop_detection_item" in core.jdump(sc_eff.get("pipeline") or {})
        for d, a in zip(sc_eff["documents"], alone):
            if "ok" not in a:
                continue
            qs = a["ok"] if isinstance(a["ok"], list) else [a["ok"]]
            cond = d["detection"]["condition"]
            n_cond = len(cond) if isinstance(cond, list) else 1
            bad = None
            if a["errors"]:
                if len(a["errors"]) != 1:
                    bad = ("one-error-record-per-failing-rule", "records:%d" % len(a["errors"]))
                elif qs:
                    bad = ("failing-rule-contributes-no-query", "queries:%d" % len(qs))
            elif d["title"] in sc_eff.get("disabled", []):
                if qs:
                    bad = ("output-disabled-rule-emits-nothing", "queries:%d" % len(qs))
            elif len(qs) > n_cond or (len(qs) != n_cond and not drops and not _has_selector(cond)):
                bad = ("one-query-per-condition", "queries:%d-conditions:%d" % (len(qs), n_cond))
            if bad and violation is None:
                violation = {"oracle": bad[0], "kind": bad[1], "got": a, "want": {"rule": d["title"], "conditions": n_cond}}
    n_fail = sum(1 for c in classes if not c.startswith("ok"))
    n_ok = sum(1 for c in classes if c == "ok")
    if n_fail:
        pos = [i for i, c in enumerate(classes) if not c.startswith("ok")]
        if pos[0] == 0:
            probes["failing_rule_first"] = 1
        if pos[-1] == len(classes) - 1:
            probes["failing_rule_last"] = 1
        if any(0 < p < len(classes) - 1 for p in pos):
            probes["failing_rule_middle"] = 1
    if int(sc.get("passes", 1)) > 1:
        probes["collection_converted_twice_by_same_backend"] = 1
    if sc.get("global_doc"):
        probes["with_global_action_document"] = 1
    if corrs:
        probes["with_correlation_rules"] = 1
    if sc_eff.get("filters"):
        probes["with_filters"] = 1
    if sc_eff.get("disabled"):
        probes["with_output_disabled_rule"] = 1
    if any(isinstance(d["detection"]["condition"], list) for d in sc_eff["documents"]):
        probes["multi_condition_rule"] = 1
    log = {"got": got, "strict": strict, "alone": alone}
    if violation is not None:
        pass
    elif not loaded:
        violation = {"oracle": "batch-loads-when-every-rule-loads-alone", "kind": "batch-load-failed",
                     "got": got, "want": "loadable"}
    elif aborting is not None:
        # a rule raises something that is not a Sigma error even when converted alone with
        # collect_errors=True: by the property it must be collected, not raised.
        violation = {"oracle": "collect-mode-never-raises-for-listed-failure-stages",
                     "kind": "raised:" + aborting["exc"], "got": aborting,
                     "want": "one (rule, error) record, no exception"}
    elif corrs:
        violation = _check_with_correlations(sc_eff, alone, corrs, got, probes)
    else:
        want = {"ok": world.normalise(want_queries), "errors": want_errors}
        if got.get("ok") != want["ok"] or "ok" not in got:
            violation = {"oracle": "batch-equals-concatenation-of-alone-results", "kind": "queries-differ",
                         "got": got, "want": want}
        elif got.get("errors") != want["errors"]:
            violation = {"oracle": "one-error-record-per-failing-rule", "kind": "errors-differ",
                         "got": got, "want": want}
        else:
            # strict mode: first error of collect mode is raised
            if want_errors:
                first = want_errors[0]
                if first["exc"] == "SigmaFeatureNotSupportedByBackendError" and strict.get("exc") == "NotImplementedError":
                    # the same failure, raised in its original class when errors are not collected;
                    # strict mode appends the "(while ... rule ...)" context to the message
                    same = str(strict.get("msg", "")).startswith(first["msg"])
                else:
                    same = strict.get("exc") == first["exc"] and strict.get("msg") == first["msg"]
                if "ok" in strict or not same:
                    violation = {"oracle": "strict-mode-raises-first-error", "kind": "strict-differs",
                                 "got": strict, "want": first}
            else:
                if strict.get("ok") != want["ok"]:
                    violation = {"oracle": "strict-mode-equals-collect-mode-without-failures",
                                 "kind": "strict-differs", "got": strict, "want": want["ok"]}
    if violation is None and simbackend.class_attr_snapshot() != simbackend.PRISTINE_SNAPSHOT:
        violation = {"oracle": "class-settings-restored", "kind": "class-attribute-changed",
                     "got": "changed", "want": "pristine"}
    sig = core.digest([classes, sorted(faults), sc["cls"], sc.get("pipeline") is not None, bool(sc.get("filters"))])
    return {"violation": violation, "log": log, "faults": faults, "probes": probes,
            "steps": len(classes), "signature": sig, "nontrivial": n_fail >= 1 and n_ok >= 1}


_TAG = re.compile(r"<([RK]\d+)>")


def _check_with_correlations(sc: dict, alone: list[dict], corrs: list[dict], got: dict, probes: dict) -> Any:
    """Batches that contain correlation rules.  A correlation legitimately depends on the rules it
    refers to (their queries are embedded and not finalised on their own), so the comparison with the
    rule converted alone is made for the *bystanders* - the rules no correlation refers to - and the
    accounting (no exception in collecting mode, a failing rule gives one record and no query) for
    every rule and correlation rule."""
    from sigsim import world

    docs = sc["documents"]
    referenced = {t for c in corrs for t in c["correlation"]["rules"]}
    involved = {d["title"] for d in docs if d.get("name") in referenced}
    # the correlation rules here always ask for generation: the rules they refer to emit their own
    # queries, and "each of these queries equals what converting that rule alone yields" holds for them
    # like for any other rule (finalisation and post-processing included)
    # ... except those whose output is switched off: nothing is emitted for them, and what a correlation
    # rule embeds is legitimately not finalised on its own
    held_back: set = {t for t in involved if t in sc.get("disabled", [])}
    if "ok" not in got:
        if got.get("sigma") or got.get("exc") == "NotImplementedError":
            return {"oracle": "collect-mode-never-raises-for-listed-failure-stages",
                    "kind": "raised-with-correlation-rule:" + str(got.get("exc")), "got": got,
                    "want": "one (rule, error) record per rule that cannot be converted, no exception"}
        probes["correlation_batch_unlisted_exception"] = 1
        return None
    qs = got["ok"] if isinstance(got["ok"], list) else [got["ok"]]
    def title_of(q: Any) -> str:
        m = _TAG.search(str(q))
        return m.group(1) if m else "?"

    by_title: dict[str, list] = {}
    for q in qs:
        by_title.setdefault(title_of(q), []).append(q)
    by_stander_q = [q for q in qs if title_of(q) not in held_back and not title_of(q).startswith("K")]
    want_q: list = []
    want_e: list = []
    for d, a in zip(docs, alone):
        if d["title"] in held_back:
            continue
        want_q.extend(a["ok"] if isinstance(a["ok"], list) else [a["ok"]])
        want_e.extend(a["errors"])
    want_q = world.normalise(want_q)
    got_e = [e for e in got["errors"] if e["rule"] not in held_back and not str(e["rule"]).startswith("K")]
    if by_stander_q != want_q:
        return {"oracle": "batch-equals-concatenation-of-alone-results", "kind": "rule-queries-differ-with-correlation-rule",
                "got": {"ok": by_stander_q}, "want": {"ok": want_q}}
    if got_e != want_e:
        return {"oracle": "one-error-record-per-failing-rule", "kind": "rule-errors-differ-with-correlation-rule",
                "got": {"errors": got_e}, "want": {"errors": want_e}}
    failed = set()
    for title in sorted(involved) + [c["title"] for c in corrs]:
        recs = [e for e in got["errors"] if e["rule"] == title]
        if len(recs) > 1:
            return {"oracle": "one-error-record-per-failing-rule", "kind": "records:%d" % len(recs),
                    "got": {"errors": recs}, "want": {"rule": title}}
        if recs and by_title.get(title):
            return {"oracle": "failing-rule-contributes-no-query", "kind": "queries:%d" % len(by_title[title]),
                    "got": {"ok": by_title[title], "errors": recs}, "want": {"rule": title}}
        if recs:
            failed.add(title)
    name_to_title = {d.get("name"): d["title"] for d in docs if d.get("name")}
    name_to_title.update({c["name"]: c["title"] for c in corrs})
    for c in corrs:
        broken = [t for t in c["correlation"]["rules"] if name_to_title.get(t) in failed]
        if broken and c["title"] not in failed:
            return {"oracle": "failing-rule-contributes-no-query", "kind": "correlation-converted-over-a-failed-rule",
                    "got": {"ok": by_title.get(c["title"]), "errors": [e for e in got["errors"] if e["rule"] == c["title"]]},
                    "want": {"rule": c["title"], "failed_references": broken}}
        if broken:
            probes["correlation_over_failed_rule_collected"] = probes.get("correlation_over_failed_rule_collected", 0) + 1
    return None


def _has_selector(cond: Any) -> bool:
    """A selector that matches no detection makes (part of) a condition empty; pySigma drops empty parts
    by design (the same mechanism serves drop_detection_item) and an entirely empty condition yields no
    query.  The statement's 'one query per condition' is therefore asserted as equality only for
    conditions without selectors and pipelines without drop_detection_item, else as an upper bound."""
    conds = cond if isinstance(cond, list) else [cond]
    return any(" of " in (" " + c) for c in conds)


def _natural_fault(faults: dict, msg: str) -> None:
    table = [("sim_fail_at", "pipeline:sim_fail_at"), ("sim_fail_post", "pipeline:sim_fail_post"),
             ("planned rule failure", "pipeline:rule_failure"), ("rule failure", "pipeline:failure_item"),
             ("item failure", "pipeline:failure_item"), ("never_defined", "doc:unresolved_placeholder"),
             ("laceholder", "doc:unresolved_placeholder"), ("missing_det", "doc:missing_detection"),
             ("Boolean values", "doc:unbound_bool"), ("CIDR values", "doc:unbound_cidr"),
             ("not supported", "doc:unsupported_by_backend"), ("injected fault", None)]
    for needle, key in table:
        if needle in msg:
            if key:
                core.merge_counts(faults, {key: 1})
            return
    core.merge_counts(faults, {"other:" + msg[:30]: 1})


# ------------------------------------------------------------------------------------------------


def shrink(sc: dict) -> Iterable[dict]:
    docs = sc["documents"]
    for sub in core.drop_one(docs):
        if sub:
            c = copy.deepcopy(sc)
            c["documents"] = copy.deepcopy(sub)
            titles = {d["title"] for d in sub}
            c["faults"] = [f for f in c["faults"] if f["rule"] in titles]
            c["disabled"] = [t for t in c["disabled"] if t in titles]
            yield c
    if sc.get("correlations"):
        c = copy.deepcopy(sc)
        c["correlations"] = []
        yield c
        for i in range(len(sc["correlations"])):
            c = copy.deepcopy(sc)
            del c["correlations"][i]
            yield c
    for i in range(len(sc.get("filters", []))):
        c = copy.deepcopy(sc)
        del c["filters"][i]
        yield c
    for i in range(len(sc.get("faults", []))):
        c = copy.deepcopy(sc)
        del c["faults"][i]
        yield c
    for i in range(len(sc.get("disabled", []))):
        c = copy.deepcopy(sc)
        del c["disabled"][i]
        yield c
    if sc.get("pipeline") is not None:
        c = copy.deepcopy(sc)
        c["pipeline"] = None
        yield c
        for part in ("transformations", "postprocessing"):
            for j in reversed(range(len(sc["pipeline"].get(part, [])))):
                c = copy.deepcopy(sc)
                del c["pipeline"][part][j]
                yield c
        if "vars" in sc["pipeline"]:
            c = copy.deepcopy(sc)
            del c["pipeline"]["vars"]
            yield c
        for j, it in enumerate(sc["pipeline"].get("transformations", [])):
            for k in ("rule_conditions", "field_name_conditions", "detection_item_conditions", "rule_cond_op",
                      "rule_cond_not", "id"):
                if k in it:
                    c = copy.deepcopy(sc)
                    del c["pipeline"]["transformations"][j][k]
                    yield c
    if sc.get("global_doc"):
        c = copy.deepcopy(sc)
        c["global_doc"] = None
        yield c
    if int(sc.get("passes", 1)) > 1:
        c = copy.deepcopy(sc)
        c["passes"] = 1
        c["first_pass_clean"] = False
        yield c
        if sc.get("first_pass_clean"):
            c = copy.deepcopy(sc)
            c["first_pass_clean"] = False
            yield c
    if sc["format"] != "default":
        c = copy.deepcopy(sc)
        c["format"] = "default"
        yield c
    if sc["cls"] != "SimBackend":
        c = copy.deepcopy(sc)
        c["cls"] = "SimBackend"
        yield c
    for i, doc in enumerate(docs):
        for k in ("status", "level", "tags", "date", "description", "custom_x", "fields", "id", "name"):
            if k in doc:
                c = copy.deepcopy(sc)
                del c["documents"][i][k]
                yield c
        det = doc["detection"]
        if isinstance(det.get("condition"), list) and len(det["condition"]) > 1:
            for j in range(len(det["condition"])):
                c = copy.deepcopy(sc)
                del c["documents"][i]["detection"]["condition"][j]
                yield c
        names = [k for k in det if k != "condition"]
        for n in names:
            if len(names) > 1:
                c = copy.deepcopy(sc)
                del c["documents"][i]["detection"][n]
                c["documents"][i]["detection"]["condition"] = [x for x in names if x != n][0]
                yield c
            v = det[n]
            if isinstance(v, dict) and len(v) > 1:
                for k in list(v):
                    c = copy.deepcopy(sc)
                    del c["documents"][i]["detection"][n][k]
                    yield c
            if isinstance(v, list) and len(v) > 1:
                for j in range(len(v)):
                    c = copy.deepcopy(sc)
                    del c["documents"][i]["detection"][n][j]
                    yield c
        cond = det.get("condition")
        if isinstance(cond, str) and cond not in names and names:
            c = copy.deepcopy(sc)
            c["documents"][i]["detection"]["condition"] = names[0]
            yield c


def tags(sc: dict, violation: dict) -> set[str]:
    t: set[str] = set()
    if str(violation.get("kind", "")).startswith("raised:NotImplementedError"):
        t.add("non-Sigma-exception-in-collect-mode")
    return t

"""
C19 - validation only observes: it is exact about references and changes nothing.

Validators are instances with tables that accumulate until finalize(), held in a set whose iteration
order is decided by object addresses; validation interleaves with conversion and serialisation of the
same rule objects.  The simulator imposes the validator order (explicitly ordered container) and the
rule order, and interleaves Validate / Convert / ToDict; oracles: purity against a freshly loaded
copy, invariance of the issue multiset under both orders and under the interleaving, and a reference
model for the reference / uniqueness checks and for exclusions.
"""

from __future__ import annotations

import copy
import os
import re
import shutil
from random import Random
from typing import Any, Iterable

from sigsim import core, gen

PROPERTY = "C19"
QUICK_RUNS = 1500
RUN_TIMEOUT = 60.0
RULE = (
    "seeded generator: collections of 2-6 rules (+0-1 correlation rule) with keyword-prefixed, digit- and "
    "underscore-prefixed detection names, selectors, duplicate ids / titles in any multiplicity and the same "
    "file name in different scratch directories (loaded through load_ruleset so that source is set), an "
    "exclusion table, a validator subset; schedule of 3-5 worlds, each with its own validator order, rule order "
    "and interleaving of Validate / Convert / ToDict ops (V, VC, CV, VVC, TVC ...). non-trivial = >=2 rules and "
    ">=2 stateful validators, or a name from the tricky alphabet; distinct = distinct (name classes, duplicate "
    "pattern, validator subset size, interleavings, issue classes seen)"
)
REAL = ["sigma.* (all built-in validators except the ATT&CK / D3FEND tag validators)", "PyYAML", "pyparsing",
        "real rule files in a scratch tree"]
STUB = ["SigmaValidator.validators (a set: no order promised) replaced by a set subclass with scheduled iteration order",
        "directory enumeration order (pathlib.Path.glob wrapped)"]
ASSUMPTIONS = [
    "re-using one SigmaValidator object for two validate_rules runs is not demanded (tables are not reset)",
    "ATT&CK / D3FEND tag validators are left out: they need downloaded data and are per-rule tag lookups",
    "issues are compared as multisets of (issue class, rule identities, issue fields)",
]

STATEFUL = ["identifier_uniqueness", "duplicate_title", "duplicate_filename"]
MODELLED = ["dangling_detection", "dangling_condition", "identifier_uniqueness", "duplicate_title", "duplicate_filename"]
KEYWORDS = {"and", "or", "not", "of", "1", "any", "all"}


def generate(streams: core.Streams, tier: str) -> dict:
    w, s = streams["workload"], streams["schedule"]
    n = w.randint(2, 6)
    docs: list[dict] = []
    ids = gen.UUIDS[:4]
    titles = ["Title A", "Title B", "Title C"]
    for i in range(n):
        d = gen.gen_rule(w, f"R{i}", tricky=0.35, multi_cond=0.3, special=0.2,
                         names_pool=gen.NAMES_PLAIN + ["sel-4"], with_meta=0.6)
        det = d["detection"]
        names = [k for k in det if k != "condition"]
        r = w.random()
        if r < 0.25:  # make sure every detection is referenced
            det["condition"] = gen.gen_condition_covering(w, names)
        elif r < 0.35:  # an extra, unreferenced detection
            det["unused_" + str(i)] = {"User": "x"}
        elif r < 0.45:  # a selector that matches nothing
            det["condition"] = (det["condition"] if isinstance(det["condition"], str) else det["condition"][0]) + " or 1 of nomatch_*"
        d["title"] = gen.pick(w, titles) if gen.chance(w, 0.5) else f"Unique {i}"
        if gen.chance(w, 0.85):
            d["id"] = gen.pick(w, ids) if gen.chance(w, 0.5) else gen.UUIDS[4 + i]
        if gen.chance(w, 0.3):
            d["references"] = gen.pick(w, [["http://a"], ["http://a", "http://a"], ["http://a", "http://b"],
                                           ["http://z", "http://a"], ["http://b", "http://a", "http://b"]])
        if gen.chance(w, 0.3) and "tags" in d:
            d["tags"] = list(reversed(sorted(d["tags"])))
        if gen.chance(w, 0.3) and "fields" in d:
            d["fields"] = list(reversed(sorted(d["fields"])))
        d["_key"] = f"k{i}"  # harness identity, stored as custom attribute
        docs.append(d)
    if gen.chance(w, 0.2):
        # a verbatim copy of a rule (equal by value, a different object and possibly a different file)
        twin = copy.deepcopy(gen.pick(w, docs))
        twin["_key"] = f"k{len(docs)}"
        docs.append(twin)
    if len(docs) >= 2 and gen.chance(w, 0.3):
        # two rules with the SAME condition text whose selector matches in one rule and in the other not
        a, b = w.sample(range(len(docs)), 2)
        cond = gen.pick(w, ["selection and not 1 of filter_*", "1 of sel* and not all of flt*", "selection or 1 of opt_*"])
        pre = {"selection and not 1 of filter_*": "filter_", "1 of sel* and not all of flt*": "flt", "selection or 1 of opt_*": "opt_"}[cond]
        for k, with_match in ((a, True), (b, False)):
            det = {"selection": {"User": "x"}, "condition": cond}
            if with_match:
                det[pre + "one"] = {"Image": "y"}
            docs[k]["detection"] = det
    if gen.chance(w, 0.2):
        ref = next((d["id"] for d in docs if "id" in d), None)
        if ref:
            c = gen.gen_correlation(w, "Corr", [ref], rid=gen.UUIDS[9], name="corr")
            c["_key"] = "kc"
            docs.append(c)
    # files: (dir, filename) per document; same filename in different dirs possible; several docs per file
    files = []
    dirs = ["d1", "d2", "d1/sub"]
    fnames = ["rule_a.yml", "rule_b.yml", "win_proc_creation_rule.yml", "x.yml", "Rule_A.yml"]  # the last differs from the first in case only
    for d in docs:
        if files and gen.chance(w, 0.2):
            files.append(gen.pick(w, files))
        else:
            files.append([gen.pick(w, dirs), gen.pick(w, fnames)])
    vnames_all = ["all_of_them_condition", "control_character", "custom_attributes", "cvetag", "cartag",
                  "dangling_condition", "dangling_detection", "detection_tag", "double_wildcard",
                  "duplicate_filename", "duplicate_references", "duplicate_tag", "duplicate_title",
                  "escaped_wildcard", "fieldname_logsource", "filename_length", "identifier_existence",
                  "identifier_uniqueness", "invalid_modifier_combinations", "namespace_tag", "number_as_string",
                  "specific_instead_of_generic_logsource", "stptag", "tag_format",
                  "them_condition_with_single_detection", "tlptag", "tlpv1_tag", "tlpv2_tag",
                  "wildcards_instead_of_modifiers"]
    k = w.randint(4, len(vnames_all))
    subset = sorted(set(w.sample(vnames_all, k) + w.sample(MODELLED, w.randint(2, 5))))
    exclusions: dict[str, list[str]] = {}
    for d in docs:
        if "id" in d and gen.chance(w, 0.2):
            exclusions.setdefault(d["id"], [])
            for v in w.sample(subset, min(len(subset), w.randint(1, 2))):
                if v not in exclusions[d["id"]]:
                    exclusions[d["id"]].append(v)
    worlds = []
    for j in range(s.randint(3, 5)):
        vo = list(range(len(subset)))
        s.shuffle(vo)
        ro = list(range(len(docs)))
        s.shuffle(ro)
        inter = gen.pick(s, ["V", "VC", "CV", "VVC", "TVC", "VTC", "CVT", "VCV"])
        worlds.append({"validator_order": vo, "rule_order": ro, "ops": inter})
    worlds[0]["validator_order"] = list(range(len(subset)))
    worlds[0]["rule_order"] = list(range(len(docs)))
    sc = {"documents": docs, "files": files, "validators": subset, "exclusions": exclusions,
          "worlds": worlds, "cls": gen.pick(s, ["SimBackend", "SimBackendNE"])}
    # drawn last (earlier draws keep their values): the conversions between the validations run with a
    # pipeline that rewrites conditions.  add_condition adds a detection *and* refers to it, so the
    # reference model's verdicts are the same before and after.
    if gen.chance(w, 0.3):
        tr: list[dict] = [{"type": "add_condition", "conditions": {"Extra": gen.pick(w, ["v", "w*"])}}]
        if gen.chance(w, 0.4):
            tr[0]["rule_conditions"] = [{"type": "logsource", "product": gen.pick(w, gen.PRODUCTS)}]
        if gen.chance(w, 0.4):
            tr.append({"type": "field_name_prefix", "prefix": "x."})
        sc["conv_pipeline"] = {"name": "conv", "priority": 0, "transformations": tr}
    # drawn last as well (round 9): a selector WITHOUT a wildcard is an exact name - '1 of selection' does
    # not refer to 'selection_other', and 'all of filter' does not match 'filter_x' (nor the other way round:
    # '1 of filter_x' with only 'filter' present is dangling).
    if gen.chance(w, 0.3):
        k = w.randrange(len(docs))
        if docs[k].get("detection") is not None:
            shape = gen.pick(w, ["prefix-sibling-unused", "exact-missing", "both"])
            det = {"selection": {"User": "x"}, "selection_other": {"Image": "y"}}
            if shape == "prefix-sibling-unused":
                det["condition"] = gen.pick(w, ["1 of selection", "all of selection", "any of selection"])
            elif shape == "exact-missing":
                det["condition"] = gen.pick(w, ["selection and not 1 of selection_othe", "1 of selection_other and not all of sel"])
            else:
                det["filter"] = {"User": "z"}
                det["condition"] = gen.pick(w, ["1 of selection and not 1 of filter", "all of selection_other or 1 of filter_x"])
            docs[k]["detection"] = det
    return sc


# ------------------------------------------------------------------------------------------------
# reference model


def _tokens(cond: str) -> list[str]:
    return re.findall(r"[A-Za-z0-9_*-]+|\(|\)", cond)


def referenced(cond: str, names: list[str]) -> tuple[set[str], set[str]]:
    """(detections referred to, selector patterns that match nothing) by the Sigma grammar:
    a detection name is read as a whole word; selectors match by pattern; underscore-prefixed names are
    only matched by patterns that start with an underscore themselves."""
    toks = _tokens(cond)
    refd: set[str] = set()
    dangling_patterns: set[str] = set()
    i = 0
    while i < len(toks):
        t = toks[i]
        if t in ("1", "any", "all") and i + 2 < len(toks) + 0 and i + 1 < len(toks) and toks[i + 1] == "of" and i + 2 < len(toks):
            pat = toks[i + 2]
            if pat == "them":
                rx = re.compile(".*")
            else:
                rx = re.compile(pat.replace("*", ".*"))
            m = {n for n in names if rx.fullmatch(n) and (pat.startswith("_") or not n.startswith("_"))}
            if not m:
                dangling_patterns.add(pat)
            refd |= m
            i += 3
            continue
        if t not in ("(", ")", "and", "or", "not"):
            refd.add(t)
        i += 1
    return refd, dangling_patterns


def model_issues(sc: dict) -> dict[str, list]:
    """expected issues of the modelled validators as sorted lists of (class, rule keys, field)"""
    docs = sc["documents"]
    excl = sc.get("exclusions", {})
    want: dict[str, list] = {}

    def excluded(d: dict, v: str) -> bool:
        return v in excl.get(d.get("id", "__none__"), [])

    vs = sc["validators"]
    if "dangling_detection" in vs:
        out = []
        for d in docs:
            if "detection" not in d or excluded(d, "dangling_detection"):
                continue
            det = d["detection"]
            names = [k for k in det if k != "condition"]
            conds = det["condition"] if isinstance(det["condition"], list) else [det["condition"]]
            refd: set[str] = set()
            for c in conds:
                refd |= referenced(c, names)[0]
            for nme in names:
                if nme not in refd:
                    out.append(["DanglingDetectionIssue", [d["_key"]], nme])
        want["DanglingDetectionIssue"] = sorted(out)
    if "dangling_condition" in vs:
        out = []
        for d in docs:
            if "detection" not in d or excluded(d, "dangling_condition"):
                continue
            det = d["detection"]
            names = [k for k in det if k != "condition"]
            conds = det["condition"] if isinstance(det["condition"], list) else [det["condition"]]
            pats: set[str] = set()
            for c in conds:
                pats |= referenced(c, names)[1]
            for p in pats:
                out.append(["DanglingConditionIssue", [d["_key"]], p])
        want["DanglingConditionIssue"] = sorted(out)
    if "identifier_uniqueness" in vs:
        groups: dict[str, list[str]] = {}
        for d in docs:
            if "id" in d and not excluded(d, "identifier_uniqueness"):
                groups.setdefault(d["id"], []).append(d["_key"])
        want["IdentifierCollisionIssue"] = sorted(["IdentifierCollisionIssue", sorted(g), i] for i, g in groups.items() if len(g) > 1)
    if "duplicate_title" in vs:
        groups = {}
        for d in docs:
            if not excluded(d, "duplicate_title"):
                groups.setdefault(d["title"], []).append(d["_key"])
        want["DuplicateTitleIssue"] = sorted(["DuplicateTitleIssue", sorted(g), t] for t, g in groups.items() if len(g) > 1)
    if "duplicate_filename" in vs:
        by_name: dict[str, list[str]] = {}
        paths: dict[str, set[str]] = {}
        for d, (dr, fn) in zip(docs, sc["files"]):
            if excluded(d, "duplicate_filename"):
                continue
            by_name.setdefault(fn, []).append(d["_key"])
            paths.setdefault(fn, set()).add(dr + "/" + fn)
        want["DuplicateFilenameIssue"] = sorted(["DuplicateFilenameIssue", sorted(by_name[fn]), fn]
                                                for fn in by_name if len(paths[fn]) > 1)
    return want


# ------------------------------------------------------------------------------------------------
# worlds


def _write_tree(sc: dict, root: str, order: list[int]) -> list[str]:
    """documents grouped by file, files written in the scheduled rule order; returns file paths in the
    order in which the directory enumeration will deliver them"""
    from sigsim import world

    by_file: dict[str, list[dict]] = {}
    file_order: list[str] = []
    for i in order:
        dr, fn = sc["files"][i]
        p = os.path.join(root, dr, fn)
        if p not in by_file:
            by_file[p] = []
            file_order.append(p)
        d = copy.deepcopy(sc["documents"][i])
        d["sim_key"] = d.pop("_key")
        by_file[p].append(d)
    for p, ds in by_file.items():
        os.makedirs(os.path.dirname(p), exist_ok=True)
        with open(p, "w") as fh:
            fh.write(world.dump_yaml(ds))
    return file_order


def _stable(v: Any) -> Any:
    """stable summary of an issue field: detection items and values carry parent links (set by
    conversion) and source paths (scratch directories) that are not part of the issue's content"""
    from sigsim import world

    if hasattr(v, "field") and hasattr(v, "value") and hasattr(v, "modifiers"):
        return "item:%s|%s=%s" % (v.field, ",".join(m.__name__ for m in v.modifiers), [str(x) for x in v.value])
    if isinstance(v, (list, tuple, set, frozenset)):
        return sorted(str(_stable(x)) for x in v)
    if isinstance(v, (str, int, float, bool)) or v is None:
        return v
    return world.normalise(str(v))


def _issue_rec(issue: Any) -> list:
    keys = sorted(str(r.custom_attributes.get("sim_key")) for r in issue.rules)
    fields = {k: _stable(v) for k, v in vars(issue).items() if k != "rules"}
    cls = type(issue).__name__
    main = None
    for k in ("detection_name", "condition_name", "identifier", "title", "filename"):
        if k in fields:
            main = str(fields[k])
    return [cls, keys, main if main is not None else sorted((k, repr(v)) for k, v in fields.items())]


def _world(args: tuple[dict, int | None]) -> dict:
    """One world: load, then the scheduled interleaving.  index None = baseline (no validation)."""
    from sigma.collection import SigmaCollection
    from sigma.validation import SigmaValidator
    from sigma.validators.core import validators
    from sigsim import simbackend, world
    from uuid import UUID

    sc, wi = args
    wd = sc["worlds"][wi] if wi is not None else {"validator_order": [], "ops": sc.get("_baseline_ops", "CT"),
                                                  "rule_order": sc.get(
        "_baseline_order", list(range(len(sc["documents"]))))}
    scratch = world.scratch_dir()
    out: dict[str, Any] = {"issues": [], "errors": []}
    try:
        root = os.path.join(scratch, "rules")
        file_order = _write_tree(sc, root, wd["rule_order"])
        rank = {p: j for j, p in enumerate(file_order)}
        try:
            with world.GlobOrder(lambda found: sorted(found, key=lambda x: rank.get(str(x), 99))):
                coll = SigmaCollection.load_ruleset([root])
        except Exception as e:  # a collection that does not load is outside this property
            return {"loadfail": world.exc_record(e)}
        out["loaded_order"] = [r.custom_attributes.get("sim_key") for r in coll.rules]

        def validate() -> None:
            classes = [validators[n] for n in sc["validators"]]
            excl = {UUID(i): {validators[v] for v in vs} for i, vs in sc.get("exclusions", {}).items()}
            v = SigmaValidator(classes, excl)
            insts = sorted(v.validators, key=lambda x: type(x).__name__)
            byname = {type(x).__name__: x for x in insts}
            ordered = [byname[validators[sc["validators"][j]].__name__] for j in wd["validator_order"]]
            v.validators = _OrderedSet(ordered)  # explicit iteration order instead of address order
            issues = v.validate_rules(iter(coll.rules))
            out["issues"].append(sorted(_issue_rec(i) for i in issues))

        def convert() -> dict:
            b = simbackend.CLASSES[sc["cls"]](world.build_pipeline(sc.get("conv_pipeline")), collect_errors=True)
            r = world.capture(lambda: b.convert(coll))
            r["errors"] = world.errors_record(b.errors)
            return r

        def todict() -> dict:
            res = {}
            for r in coll.rules:
                res[str(r.custom_attributes.get("sim_key"))] = world.capture(lambda r=r: r.to_dict())
            return res

        out["issue_stage"] = []
        n_conv = 0
        for ch in wd["ops"]:
            if ch == "V":
                validate()
                out["issue_stage"].append(n_conv)
            elif ch == "C":
                convert()
                n_conv += 1
            elif ch == "T":
                todict()
        # final observation of every rule: dict form and converted queries
        out["final_dict"] = todict()
        out["final_convert"] = convert()
        return out
    finally:
        shutil.rmtree(scratch, ignore_errors=True)


class _OrderedSet(set):  # type: ignore[type-arg]
    """A real set (so every set operation of the code under test keeps working, in place ones too)
    whose iteration order is the order given by the schedule instead of the address order."""

    def __init__(self, items: list) -> None:
        super().__init__(items)
        self._order = list(items)

    def __iter__(self):  # type: ignore[no-untyped-def]
        present = set.copy(self)
        return iter([x for x in self._order if set.__contains__(present, x)]
                    + [x for x in set.__iter__(present) if x not in self._order])


def execute(scenario: dict) -> dict:
    sc = scenario
    bases: dict[tuple, dict] = {}

    def baseline(order: list[int], ops: str = "CT") -> dict:
        """never-validated world with the same rule order (duplicate ids make references - and so the
        conversion - depend on the rule order; that is not validation's doing).  With a pipeline that
        rewrites the rules, converting is not idempotent: the baseline then runs the same operations as
        the world, minus the validations."""
        ops = ops.replace("V", "") if sc.get("conv_pipeline") else "CT"
        key = (tuple(order), ops)
        if key not in bases:
            st0, b0 = core.run_in_fork(_world, (dict(sc, _baseline_order=list(order), _baseline_ops=ops), None), 30.0)
            if st0 != "ok":
                raise core.HarnessError(f"baseline world failed: {st0}: {b0}")
            bases[key] = b0
        return bases[key]

    base = baseline(list(range(len(sc["documents"]))))
    if "loadfail" in base:
        return {"violation": None, "log": {"baseline": base}, "faults": {}, "probes": {"collection_not_loadable": 1},
                "steps": 0, "signature": "unloadable", "nontrivial": False}
    faults: dict[str, int] = {}
    probes: dict[str, int] = {}
    violation = None
    want = model_issues(sc)
    first_issues: dict[int, Any] = {}
    classes_seen: set[str] = set()
    log: dict[str, Any] = {"baseline_order": base.get("loaded_order"), "worlds": []}
    steps = 0
    for wi, wd in enumerate(sc["worlds"]):
        st, got = core.run_in_fork(_world, (sc, wi), 30.0)
        if st != "ok":
            raise core.HarnessError(f"world {wi} failed: {st}: {got}")
        if "loadfail" in got:
            violation = {"oracle": "collection-loads-in-every-order", "kind": "load-failed-in-one-order", "world": wd,
                         "got": got["loadfail"], "want": "loadable as in the baseline order"}
            break
        steps += len(wd["ops"])
        core.merge_counts(faults, {"interleaving:" + wd["ops"]: 1})
        if wd["validator_order"] != sorted(wd["validator_order"]):
            core.merge_counts(faults, {"reordering:validator_order_imposed": 1})
        if wd["rule_order"] != sorted(wd["rule_order"]):
            core.merge_counts(faults, {"reordering:rule_order_imposed": 1})
        if wi < 2:
            log["worlds"].append({"world": wd, "issues": got["issues"][:1]})
        # (i) purity: final dict form and conversion equal the never-validated baseline (per rule)
        base = baseline(wd["rule_order"], wd["ops"])
        if _by_rule(got["final_dict"]) != _by_rule(base["final_dict"]):
            violation = {"oracle": "validation-leaves-dict-form-unchanged", "kind": "to_dict-differs", "world": wd,
                         "got": _diff(got["final_dict"], base["final_dict"]), "want": "as freshly loaded"}
        elif _queries(got["final_convert"]) != _queries(base["final_convert"]):
            violation = {"oracle": "validation-leaves-conversion-unchanged", "kind": "queries-differ", "world": wd,
                         "got": _queries(got["final_convert"]), "want": _queries(base["final_convert"])}
        else:
            for k_iss, iss in enumerate(got["issues"]):
                for rec in iss:
                    classes_seen.add(rec[0])
                # (ii) order / interleaving invariance.  With a rewriting pipeline the rules legitimately
                # differ after each conversion: validations are compared with those made after the same
                # number of conversions (the reference model below holds at every stage)
                stage = got["issue_stage"][k_iss] if sc.get("conv_pipeline") else 0
                if stage not in first_issues:
                    first_issues[stage] = iss
                elif iss != first_issues[stage]:
                    violation = {"oracle": "issues-independent-of-order-and-interleaving", "kind": "issue-multiset-differs",
                                 "world": wd, "got": [x for x in iss if x not in first_issues[stage]],
                                 "want": [x for x in first_issues[stage] if x not in iss]}
                    break
                # (iii) reference model
                for cls, exp in want.items():
                    have = sorted(x for x in iss if x[0] == cls)
                    if have != exp:
                        violation = {"oracle": "reference-checks-exact", "kind": cls, "world": wd,
                                     "got": have, "want": exp}
                        break
                if violation:
                    break
        if violation:
            break
    names = [k for d in sc["documents"] if "detection" in d for k in d["detection"] if k != "condition"]
    tricky = any(nm in gen.NAMES_TRICKY for nm in names)
    if tricky:
        probes["tricky_detection_name"] = 1
    if any(nm.startswith(("not", "and", "or")) for nm in names):
        probes["keyword_prefixed_name"] = 1
    if sc.get("exclusions"):
        probes["exclusion_table"] = 1
    if sc.get("conv_pipeline"):
        probes["conversion_with_condition_rewriting_pipeline"] = 1
    for cls, exp in want.items():
        if exp:
            probes["model_expects:" + cls] = 1
    n_stateful = sum(1 for v in sc["validators"] if v in STATEFUL)
    nontrivial = (len(sc["documents"]) >= 2 and n_stateful >= 2) or tricky
    sig = core.digest([sorted({("t" if nm in gen.NAMES_TRICKY else "p") for nm in names}),
                       sorted(len(v) for v in want.values()), len(sc["validators"]),
                       sorted(wd["ops"] for wd in sc["worlds"]), sorted(classes_seen)])
    return {"violation": violation, "log": log, "faults": faults, "probes": probes, "steps": steps,
            "signature": sig, "nontrivial": nontrivial}


def _by_rule(d: dict) -> dict:
    return d


def _diff(a: dict, b: dict) -> dict:
    return {k: {"got": a.get(k), "want": b.get(k)} for k in sorted(set(a) | set(b)) if a.get(k) != b.get(k)}


def _queries(c: dict) -> Any:
    out = dict(c)
    if isinstance(out.get("ok"), list):
        out["ok"] = sorted(out["ok"])
    out["errors"] = sorted(map(core.jdump, c.get("errors", [])))
    return out


# ------------------------------------------------------------------------------------------------


def shrink(sc: dict) -> Iterable[dict]:
    if len(sc["worlds"]) > 2:
        for i in range(1, len(sc["worlds"])):
            c = copy.deepcopy(sc)
            c["worlds"] = [c["worlds"][0], c["worlds"][i]]
            yield c
    if len(sc["worlds"]) > 1:
        for i in range(len(sc["worlds"])):
            c = copy.deepcopy(sc)
            c["worlds"] = [c["worlds"][i]]
            yield c
    if sc.get("conv_pipeline"):
        c = copy.deepcopy(sc)
        del c["conv_pipeline"]
        yield c
        if len(sc["conv_pipeline"]["transformations"]) > 1:
            c = copy.deepcopy(sc)
            del c["conv_pipeline"]["transformations"][1:]
            yield c
    n = len(sc["documents"])
    for i in reversed(range(n)):
        if n <= 1:
            break
        c = copy.deepcopy(sc)
        del c["documents"][i]
        del c["files"][i]
        for wd in c["worlds"]:
            wd["rule_order"] = [x - (1 if x > i else 0) for x in wd["rule_order"] if x != i]
        ids = {d.get("id") for d in c["documents"]}
        c["exclusions"] = {k: v for k, v in c["exclusions"].items() if k in ids}
        if any("correlation" in d for d in c["documents"]) and not any(
                d.get("id") in c["documents"][j]["correlation"]["rules"] for j in range(len(c["documents"]))
                if "correlation" in c["documents"][j] for d in c["documents"] if "detection" in d):
            continue
        yield c
    for v in list(sc["validators"]):
        if len(sc["validators"]) > 1:
            c = copy.deepcopy(sc)
            idx = c["validators"].index(v)
            c["validators"].remove(v)
            for wd in c["worlds"]:
                wd["validator_order"] = [x - (1 if x > idx else 0) for x in wd["validator_order"] if x != idx]
            c["exclusions"] = {k: [x for x in vs if x != v] for k, vs in c["exclusions"].items()}
            yield c
    for k in list(sc.get("exclusions", {})):
        c = copy.deepcopy(sc)
        del c["exclusions"][k]
        yield c
    for i, wd in enumerate(sc["worlds"]):
        if len(wd["ops"]) > 1:
            for j in range(len(wd["ops"])):
                c = copy.deepcopy(sc)
                c["worlds"][i]["ops"] = wd["ops"][:j] + wd["ops"][j + 1:]
                if "V" in c["worlds"][i]["ops"]:
                    yield c
        if wd["rule_order"] != sorted(wd["rule_order"]):
            c = copy.deepcopy(sc)
            c["worlds"][i]["rule_order"] = sorted(wd["rule_order"])
            yield c
        if wd["validator_order"] != sorted(wd["validator_order"]):
            c = copy.deepcopy(sc)
            c["worlds"][i]["validator_order"] = sorted(wd["validator_order"])
            yield c
    for i, doc in enumerate(sc["documents"]):
        for k in ("status", "level", "tags", "date", "description", "custom_x", "fields", "references"):
            if k in doc:
                c = copy.deepcopy(sc)
                del c["documents"][i][k]
                yield c
        det = doc.get("detection")
        if not det:
            continue
        names = [k for k in det if k != "condition"]
        for nm in names:
            if len(names) > 1:
                c = copy.deepcopy(sc)
                del c["documents"][i]["detection"][nm]
                yield c
            if det[nm] != {"User": "x"}:
                c = copy.deepcopy(sc)
                c["documents"][i]["detection"][nm] = {"User": "x"}
                yield c
        if isinstance(det["condition"], list):
            for j in range(len(det["condition"])):
                c = copy.deepcopy(sc)
                c["documents"][i]["detection"]["condition"] = det["condition"][j]
                yield c
        elif names and det["condition"] != names[0]:
            c = copy.deepcopy(sc)
            c["documents"][i]["detection"]["condition"] = names[0]
            yield c


def tags(sc: dict, violation: dict) -> set[str]:
    return set()

"""
C16 - a pipeline file cannot grant itself code execution, file or network access.

The library runs inside a world where every such capability is a fake that records who pulled it
(subprocess, HTTP, sockets) or a real but harmless resource with a trip-wire (placeholder source
files, vars files that append their own path to a trip-wire file when executed), plus an audit hook
as backstop.  History: loads with caller opt-ins, environment variables that flip between load and
use, conversions.  Oracle: capability model - every recorded event must have been permitted by the
caller's arguments for that pipeline or by a documented environment variable at that moment.
"""

from __future__ import annotations

import copy
import os
import shutil
from random import Random
from typing import Any, Iterable

from sigsim import core, gen

PROPERTY = "C16"
QUICK_RUNS = 5000
RUN_TIMEOUT = 40.0
RULE = (
    "seeded generator: pipeline documents combining external-source items (file / http / command "
    "placeholders) and template items with vars files (post-processing template, template finalizer) at top "
    "level and nested (nest transformation, nest post-processing, nested finalizer; depth <=3); opt-in keys "
    "(allow_external_sources, allow_template_vars, vars_allowed_paths) injected with truthy values at a seeded "
    "subset of nodes incl. the document root; history of <=8 ops {Load via from_dict / from_yaml (with or "
    "without source_path) / resolver-from-file with caller opt-ins, SetEnv of the two documented variables to "
    "unset/0/1/true/TRUE/yes/empty, Add (the pipelines of two loads combined with '+' in either order or "
    "sum(), then converted), Convert}; file loads name the pipeline file absolutely or by a bare relative name "
    "from its directory; fakes answer with data or faults (non-zero exit, timeout, "
    "connection error, oversized body, garbage, missing file). non-trivial = >=1 smuggled key on the path to "
    "an item that would perform I/O; distinct = distinct (item kinds with nesting depth, injected key "
    "positions, load path, opt-ins, env values at each op, outcome classes)"
)
REAL = ["sigma.* (all)", "PyYAML", "jinja2", "importlib (the vars file is really executed when allowed; it only "
        "appends to a trip-wire file)", "real reads of placeholder source files in the scratch tree"]
STUB = ["subprocess.run / subprocess.Popen (record + scripted answer)", "requests.request / requests.Session.request "
        "(record + scripted response)", "socket.socket.connect / socket.getaddrinfo / socket.create_connection / "
        "urllib.request.urlopen (record + refuse)", "sys.addaudithook backstop for subprocess.Popen, os.system, "
        "os.exec, os.posix_spawn, socket.*, open of scratch resources"]
ASSUMPTIONS = [
    "environment variable values count as opt-in iff they are '1' or 'true' in any letter case (the documented form is =1)",
    "Jinja template loading through path: is not one of the four capabilities the statement names",
    "a symlink swapped between realpath and exec (TOCTOU) is not a schedule the statement quantifies over",
    "an event is permitted if the caller granted it for that pipeline, however deeply the item is nested; "
    "the library being stricter than that is not a violation",
]

EXT_ENV = "PYSIGMA_ALLOW_EXTERNAL_SOURCES"
VARS_ENV = "PYSIGMA_ALLOW_VARS_EXECUTION"
ENV_VALUES = [None, "0", "1", "true", "TRUE", "yes", "", "True", "no"]
TRUTHY_INJECT = [True, 1, "yes", [1], "true"]
VARS_FILES = {
    "inside": "@S@/A/ok.py",
    "inside_sub": "@S@/A/deep/ok2.py",
    "prefix_sibling": "@S@/A_evil/v.py",
    "outside": "@S@/B/evil.py",
    "symlink_file": "@S@/A/link.py",
    "symlink_dir": "@S@/A/sub/evil.py",
    "dotdot": "@S@/A/../B/evil.py",
}
INSIDE_A = {"inside", "inside_sub"}


def _truthy_env(v: str | None) -> bool:
    return v is not None and v.lower() in ("1", "true")


# ------------------------------------------------------------------------------------------------
# generation


class _Counter:
    def __init__(self) -> None:
        self.n = 0

    def next(self) -> int:
        self.n += 1
        return self.n


def _ext_item(w: Random, c: _Counter) -> dict:
    n = c.next()
    kind = gen.pick(w, ["file", "http", "cmd", "cmd"])
    if kind == "file":
        t: dict[str, Any] = {"type": "file_placeholders", "path": f"@S@/src/f{n}.txt"}
    elif kind == "http":
        t = {"type": "http_placeholders", "url": f"http://sim.invalid/u{n}"}
        if gen.chance(w, 0.3):
            t["method"] = "POST"
    else:
        t = {"type": "command_placeholders", "cmd": gen.pick(w, [f"echo cmd_{n}", ["echo", f"cmd_{n}"]])}
    if gen.chance(w, 0.2):
        t["format"] = "plaintext"
    return t


def _transformation(w: Random, c: _Counter, depth: int) -> dict:
    r = w.random()
    if r < 0.55 or depth >= 3:
        return _ext_item(w, c)
    if r < 0.85:
        return {"type": "nest", "items": [_transformation(w, c, depth + 1) for _ in range(w.randint(1, 2))]}
    return gen.gen_transformation(w, gen.pick(w, ["field_name_prefix", "set_state", "wildcard_placeholders"]), 0, 0, "c")


def _template_item(w: Random, c: _Counter, where: str) -> dict:
    n = c.next()
    vf = gen.pick(w, sorted(VARS_FILES))
    tpl = "{{ query }}" if where == "post" else "{{ queries }}"
    item = {"type": "template", "template": tpl + f" t{n}", "vars": VARS_FILES[vf], "_vf": vf}
    if gen.chance(w, 0.3):
        # the template calls the helper that the vars files export (each call leaves a trip-wire line)
        item["template"] = tpl.replace("{{ ", "{{ ident(").replace(" }}", ") }}") + f" t{n}"
        if gen.chance(w, 0.5):
            # ... without naming a vars file itself: the helper is undefined unless it leaks in from elsewhere
            del item["vars"]
            item["_vf"] = ""
    if gen.chance(w, 0.25):
        # file based template: the document names the template directory (path) itself
        item["template"] = "q.j2" if where == "post" else "qs.j2"
        item["path"] = gen.pick(w, ["@S@/B", "@S@/A", "@S@/A_evil", "@S@"])
    elif gen.chance(w, 0.2):
        # the template text itself tries to obtain a capability: through the pipeline object it is given it
        # calls the pipeline loader with the opt-in arguments and uses what that built
        import json as _json

        how = gen.pick(w, ["from_dict_ext", "from_dict_ext", "from_yaml_ext", "from_dict_vars"])
        if how == "from_dict_vars":
            vf2 = gen.pick(w, sorted(VARS_FILES))
            inner = {"postprocessing": [{"type": "template", "template": "x", "vars": VARS_FILES[vf2]}]}
            call = "pipeline.from_dict(" + _json.dumps(inner) + ", allow_template_vars=true)"
            item["template"] = tpl + "{% set p = " + call + " %}" + f" t{n}"
        else:
            ext = _ext_item(w, c)
            item["_escape"] = ext
            inner = {"transformations": [ext]}
            if how == "from_dict_ext":
                call = "pipeline.from_dict(" + _json.dumps(inner) + ", allow_external_sources=true)"
            else:
                call = "pipeline.from_yaml(" + _json.dumps(_json.dumps(inner)) + ", allow_external_sources=true)"
            item["template"] = (tpl + "{% set p = " + call + " %}"
                                "{% set r = p.items[0].transformation.placeholder_replacements(none) %}" + f" t{n}")
        if gen.chance(w, 0.5):
            item.pop("vars", None)
            item["_vf"] = ""
    return item


def _post(w: Random, c: _Counter, depth: int) -> dict:
    r = w.random()
    if r < 0.55 or depth >= 3:
        return _template_item(w, c, "post")
    if r < 0.7:
        return {"type": "nest", "items": [_post(w, c, depth + 1) for _ in range(w.randint(1, 2))]}
    if r < 0.9:
        # a format-string template that walks from the objects it is given to module globals; reading the lazily
        # computed platform.uname().processor there starts a process ('uname -p')
        return {"type": "simple_template", "template": "{query} " + gen.pick(w, [
            "{pipeline.apply.__globals__[os].sys.modules[platform]._uname_cache.processor}",
            "{rule.to_dict.__globals__[sigma_exceptions].sys.modules[platform]._uname_cache.processor}",
            "{rule.title} {pipeline.state}"])}
    return {"type": "embed", "prefix": "[", "suffix": "]"}


def _final(w: Random, c: _Counter, depth: int) -> dict:
    r = w.random()
    if r < 0.55 or depth >= 3:
        return _template_item(w, c, "final")
    if r < 0.85:
        return {"type": "nested", "finalizers": [_final(w, c, depth + 1) for _ in range(w.randint(1, 2))]}
    return {"type": "concat"}


def _inject(w: Random, node: Any, path: str, injected: list[str], p: float, root: bool = False) -> None:
    if isinstance(node, dict):
        if ("type" in node or root) and gen.chance(w, p if not root else p / 3):
            keys = w.sample(["allow_external_sources", "allow_template_vars", "vars_allowed_paths"], w.randint(1, 3))
            for k in keys:
                if k == "vars_allowed_paths":
                    node[k] = gen.pick(w, [["@S@/B"], ["/"], ["@S@"], "@S@/B"])
                else:
                    node[k] = gen.pick(w, TRUTHY_INJECT)
                injected.append(path + "/" + k)
        for k in ("transformations", "postprocessing", "finalizers", "items"):
            if isinstance(node.get(k), list):
                for i, ch in enumerate(node[k]):
                    _inject(w, ch, f"{path}/{k}[{i}]", injected, p)


def _pipeline_doc(w: Random, c: _Counter) -> tuple[dict, list[str]]:
    doc: dict[str, Any] = {"name": "untrusted", "priority": 10}
    if gen.chance(w, 0.75):
        doc["transformations"] = [_transformation(w, c, 1) for _ in range(w.randint(1, 3))]
    if gen.chance(w, 0.4):
        doc["postprocessing"] = [_post(w, c, 1) for _ in range(w.randint(1, 2))]
    if gen.chance(w, 0.35):
        doc["finalizers"] = [_final(w, c, 1) for _ in range(w.randint(1, 2))]
    if not any(k in doc for k in ("transformations", "postprocessing", "finalizers")):
        doc["transformations"] = [_ext_item(w, c)]
    if gen.chance(w, 0.08):
        # the first template item of a section reaches its own Jinja environment through the pipeline object and
        # has it import and call a module-level callable (here: unpickling a stream that calls os.system('true'))
        n = c.next()
        where = gen.pick(w, ["postprocessing", "finalizers"])
        me = ("pipeline.postprocessing_items[0].transformation" if where == "postprocessing" else "pipeline.finalizers[0]")
        out = "{{ query }}" if where == "postprocessing" else "{{ queries }}"
        text = ("{%- set env = " + me + ".j2template.environment -%}"
                "{%- set r = ['', 'c'.encode(), '('.encode(), 'S'.encode(), 't'.encode(), 'R'.encode(), '.'.encode()] -%}"
                "{%- set l = [\"'true'\\n\".encode(), \"system\\n\".encode(), \"os\\n\".encode()] -%}"
                "{%- set x = env.extend(read=r.pop, readline=l.pop) -%}"
                "{{ env.add_extension('pickle.load') }}" + out + f" t{n}")
        doc.setdefault(where, []).insert(0, {"type": "template", "template": text, "_vf": "", "_envescape": True})
    injected: list[str] = []
    _inject(w, doc, "", injected, 0.45, root=True)
    if gen.chance(w, 0.12):
        # a typo at the end of a section: the load fails after earlier items were already built
        sec = gen.pick(w, [k for k in ("transformations", "postprocessing", "finalizers") if k in doc])
        doc[sec].append({"type": "no_such_item_type"})
    return doc, injected


def generate(streams: core.Streams, tier: str) -> dict:
    w, s, f = streams["workload"], streams["schedule"], streams["fault"]
    c = _Counter()
    n_pipes = w.choice([1, 1, 2, 2])
    pipelines = {}
    injected_all = {}
    for i in range(n_pipes):
        doc, inj = _pipeline_doc(w, c)
        pipelines[f"L{i}"] = doc
        injected_all[f"L{i}"] = inj
    if n_pipes == 2 and gen.chance(w, 0.25):
        # the cross-document case made likely: one document brings a vars file, the other only calls the helper
        a, b = ("L0", "L1") if gen.chance(w, 0.5) else ("L1", "L0")
        vf = gen.pick(w, sorted(VARS_FILES))
        pipelines[a].setdefault("postprocessing", []).append(
            {"type": "template", "template": "{{ ident(query) }} t" + str(c.next()), "vars": VARS_FILES[vf], "_vf": vf})
        pipelines[b].setdefault("postprocessing", []).append(
            {"type": "template", "template": "{{ ident(query) }} t" + str(c.next()), "_vf": ""})
    ops: list[dict] = []
    # initial environment
    for var in (EXT_ENV, VARS_ENV):
        if gen.chance(s, 0.3):
            ops.append({"op": "SetEnv", "var": var, "value": gen.pick(s, ENV_VALUES)})
    loaded: list[str] = []
    for pid in sorted(pipelines):
        via = gen.pick(s, ["from_dict", "from_yaml", "from_yaml_source_path", "resolver_file"])
        op = {"op": "Load", "pipeline": pid, "via": via,
              "allow_external_sources": gen.chance(s, 0.3), "allow_template_vars": gen.chance(s, 0.35),
              "vars_allowed_paths": gen.pick(s, [None, None, ["@S@/A"], ["@S@/B"], ["@S@/A", "@S@/src"]])}
        if via == "resolver_file":
            op["allow_external_sources"] = False
            op["allow_template_vars"] = False
            op["vars_allowed_paths"] = None
        ops.append(op)
        loaded.append(pid)
        if gen.chance(s, 0.5):
            ops.append({"op": "SetEnv", "var": gen.pick(s, [EXT_ENV, VARS_ENV]), "value": gen.pick(s, ENV_VALUES)})
    if len(loaded) == 2 and gen.chance(s, 0.35):
        # round 9: the two pipelines are also used combined ('+' in either order or sum()); a capability
        # the caller gave to one load must not reach the items of the other
        parts = list(loaded) if gen.chance(s, 0.5) else list(reversed(loaded))
        ops.append({"op": "Add", "pipeline": "S0", "parts": parts, "via": gen.pick(s, ["+", "sum"])})
        loaded.append("S0")
        loaded.append("S0")
    for _ in range(s.randint(1, 3)):
        ops.append({"op": "Convert", "pipeline": gen.pick(s, loaded)})
        if gen.chance(s, 0.4):
            ops.append({"op": "SetEnv", "var": gen.pick(s, [EXT_ENV, EXT_ENV, VARS_ENV]), "value": gen.pick(s, ENV_VALUES)})
    if gen.chance(s, 0.3):
        ops.append({"op": "Load", "pipeline": gen.pick(s, [x for x in loaded if x != "S0"]), "via": "from_dict",
                    "allow_external_sources": False, "allow_template_vars": False, "vars_allowed_paths": None})
    for op in ops:
        if op["op"] == "Load" and op["via"] != "from_dict" and gen.chance(f, 0.15):
            n = c.next()
            op["yaml_tag"] = gen.pick(f, [
                f"smuggled: !!python/object/apply:subprocess.run [[\"echo\", \"yamltag_{n}\"]]",
                f"smuggled: !!python/object/apply:os.system [\"echo yamltag_{n}\"]",
                f"smuggled: !!python/object/new:subprocess.Popen [[\"echo\", \"yamltag_{n}\"]]",
            ])
            op["yaml_tag_where"] = gen.pick(f, ["vars", "root"])
    for op in ops:
        # round 9: the pipeline file is named by a bare relative path (working directory = its directory)
        if op["op"] == "Load" and op["via"] in ("from_yaml_source_path", "resolver_file") and gen.chance(f, 0.3):
            op["relative"] = True
    fake_faults = {}
    for n in range(1, c.n + 1):
        if gen.chance(f, 0.2):
            fake_faults[str(n)] = gen.pick(f, ["nonzero", "timeout", "connerr", "oversize", "garbage", "missing"])
    return {"pipelines": pipelines, "injected": injected_all, "ops": ops, "fake_faults": fake_faults}


# ------------------------------------------------------------------------------------------------
# world: scratch tree, fakes, audit hook


class Sim:
    def __init__(self, sc: dict):
        from sigsim import world

        self.sc = sc
        self.S = world.scratch_dir()
        self.events: list[dict] = []
        self.now = -1
        self.trip = os.path.join(self.S, "tripwire.log")
        self._trip_seen = 0
        self._build_tree()
        self._install_fakes()

    # -- scratch tree
    def _build_tree(self) -> None:
        S = self.S
        for d in ("A", "A/deep", "A_evil", "B", "src"):
            os.makedirs(os.path.join(S, d), exist_ok=True)
        body = ("import os\n_ME = os.path.realpath(__file__)\n"
                "with open({trip!r}, 'a') as _f:\n    _f.write(_ME + '\\n')\n"
                "def ident(x):\n    with open({trip!r}, 'a') as _f:\n        _f.write('call:' + _ME + '\\n')\n    return x\n"
                "vars = {{'ident': ident}}\n").format(trip=self.trip)
        for rel in ("A/ok.py", "A/deep/ok2.py", "A_evil/v.py", "B/evil.py"):
            with open(os.path.join(S, rel), "w") as fh:
                fh.write(body)
        for d in ("A", "A_evil", "B", ""):
            with open(os.path.join(S, d, "q.j2"), "w") as fh:
                fh.write("{{ query }} file-template")
            with open(os.path.join(S, d, "qs.j2"), "w") as fh:
                fh.write("{{ queries }} file-template")
        os.symlink(os.path.join(S, "B", "evil.py"), os.path.join(S, "A", "link.py"))
        os.symlink(os.path.join(S, "B"), os.path.join(S, "A", "sub"))
        open(self.trip, "w").close()
        n_max = 40
        for n in range(1, n_max + 1):
            if self.sc.get("fake_faults", {}).get(str(n)) == "missing":
                continue
            with open(os.path.join(S, "src", f"f{n}.txt"), "w") as fh:
                fh.write(f"val{n}a\nval{n}b\n")

    def close(self) -> None:
        shutil.rmtree(self.S, ignore_errors=True)

    def subst(self, x: Any) -> Any:
        if isinstance(x, str):
            return x.replace("@S@", self.S)
        if isinstance(x, list):
            return [self.subst(y) for y in x]
        if isinstance(x, dict):
            return {k: self.subst(v) for k, v in x.items() if not k.startswith("_")}
        return x

    def record(self, kind: str, ident: str) -> None:
        self.events.append({"t": self.now, "kind": kind, "id": ident})

    def poll_tripwire(self) -> None:
        with open(self.trip) as fh:
            lines = fh.read().splitlines()
        for line in lines[self._trip_seen:]:
            if line.startswith("call:"):
                self.record("varscall", line[5:].replace(self.S, "@S@"))
            else:
                self.record("vars", line.replace(self.S, "@S@"))
        self._trip_seen = len(lines)

    # -- fakes
    def _fault_for(self, token: str) -> str | None:
        import re

        m = re.search(r"(\d+)", token)
        return self.sc.get("fake_faults", {}).get(m.group(1)) if m else None

    def _install_fakes(self) -> None:
        import socket
        import subprocess
        import sys
        import urllib.request

        sim = self

        class FakeCompleted:
            def __init__(self, rc: int, out: str):
                self.returncode, self.stdout, self.stderr = rc, out, "fake stderr"

        def fake_run(cmd: Any, *a: Any, **kw: Any) -> Any:
            token = cmd if isinstance(cmd, str) else " ".join(map(str, cmd))
            sim.record("cmd", token)
            fault = sim._fault_for(token)
            if fault == "timeout":
                raise subprocess.TimeoutExpired(cmd, kw.get("timeout", 1))
            if fault == "nonzero":
                return FakeCompleted(3, "")
            if fault == "oversize":
                return FakeCompleted(0, "x" * (11 * 1024 * 1024))
            if fault == "garbage":
                return FakeCompleted(0, "\x00\xff{{[")
            return FakeCompleted(0, token.replace("echo ", "") + "\nsecond\n")

        class FakePopen:
            def __init__(self, cmd: Any, *a: Any, **kw: Any):
                token = cmd if isinstance(cmd, str) else " ".join(map(str, cmd))
                sim.record("cmd", token)
                raise OSError("simulated: no process creation in this world")

        subprocess.run = fake_run  # type: ignore[assignment]
        subprocess.Popen = FakePopen  # type: ignore[misc,assignment]
        subprocess.check_output = lambda cmd, *a, **kw: fake_run(cmd).stdout  # type: ignore[assignment]
        subprocess.call = lambda cmd, *a, **kw: fake_run(cmd).returncode  # type: ignore[assignment]
        os.system = lambda cmd: sim.record("cmd", str(cmd)) or 0  # type: ignore[assignment,func-returns-value]
        os.popen = lambda cmd, *a, **kw: (_ for _ in ()).throw(OSError(sim.record("cmd", str(cmd)) or "simulated"))  # type: ignore[assignment]

        try:
            import requests

            class FakeResponse:
                def __init__(self, url: str, fault: str | None):
                    self.url, self.fault, self.encoding, self.apparent_encoding = url, fault, "utf-8", "utf-8"

                def __enter__(self) -> "FakeResponse":
                    return self

                def __exit__(self, *a: Any) -> None:
                    return None

                def raise_for_status(self) -> None:
                    if self.fault == "nonzero":
                        raise requests.HTTPError("500 simulated")

                def iter_content(self, chunk_size: int = 8192) -> Iterable[bytes]:
                    if self.fault == "oversize":
                        for _ in range(1400):
                            yield b"x" * 8192
                    elif self.fault == "garbage":
                        yield b"\x00\xff{{["
                    else:
                        yield (self.url.rsplit("/", 1)[-1] + "\nsecond\n").encode()

                @property
                def text(self) -> str:
                    return b"".join(self.iter_content()).decode("utf-8", "replace")

                @property
                def content(self) -> bytes:
                    return b"".join(self.iter_content())

            def fake_request(method: Any = None, url: Any = None, *a: Any, **kw: Any) -> Any:
                sim.record("http", str(url))
                fault = sim._fault_for(str(url))
                if fault == "connerr":
                    raise requests.ConnectionError("simulated connection error")
                if fault == "timeout":
                    raise requests.Timeout("simulated timeout")
                return FakeResponse(str(url), fault)

            requests.request = fake_request  # type: ignore[assignment]
            requests.api.request = fake_request  # type: ignore[assignment]
            requests.get = lambda url, **kw: fake_request("GET", url, **kw)  # type: ignore[assignment]
            requests.post = lambda url, **kw: fake_request("POST", url, **kw)  # type: ignore[assignment]
            requests.Session.request = lambda self, method, url, *a, **kw: fake_request(method, url, **kw)  # type: ignore[assignment,method-assign]
        except ImportError:  # pragma: no cover
            pass

        def refuse(kind: str):  # type: ignore[no-untyped-def]
            def f(*a: Any, **kw: Any) -> Any:
                sim.record(kind, repr(a[:2])[:100])
                raise OSError("simulated: no network in this world")

            return f

        socket.getaddrinfo = refuse("socket")  # type: ignore[assignment]
        socket.create_connection = refuse("socket")  # type: ignore[assignment]
        socket.socket.connect = lambda self, addr: refuse("socket")(addr)  # type: ignore[method-assign,assignment]
        urllib.request.urlopen = lambda url, *a, **kw: refuse("http")(getattr(url, "full_url", url))  # type: ignore[assignment]

        S = self.S

        def hook(event: str, args: tuple) -> None:
            try:
                if event == "open":
                    p = args[0]
                    if isinstance(p, (str, bytes)):
                        p = os.fsdecode(p)
                        if p.startswith(os.path.join(S, "src")):
                            sim.record("file", p.replace(S, "@S@"))
                elif event in ("subprocess.Popen", "os.system", "os.exec", "os.posix_spawn", "os.spawn",
                               "os.fork", "os.forkpty", "pty.spawn"):
                    if sim.now >= 0:
                        sim.record("audit:" + event, repr(args)[:120])
                elif event.startswith("socket.") and event not in ("socket.__new__",):
                    if sim.now >= 0:
                        sim.record("audit:" + event, repr(args)[:120])
                elif event in ("urllib.Request", "http.client.connect"):
                    sim.record("audit:" + event, repr(args)[:120])
            except Exception:
                pass

        sys.addaudithook(hook)


# ------------------------------------------------------------------------------------------------
# capability model


def _items(node: Any, kinds: tuple[str, ...]) -> list[dict]:
    out = []
    if isinstance(node, dict):
        if node.get("type") in kinds:
            out.append(node)
        for k in ("transformations", "postprocessing", "finalizers", "items"):
            for ch in node.get(k, []) if isinstance(node.get(k), list) else []:
                out += _items(ch, kinds)
    return out


def _token_of(item: dict) -> str:
    if item["type"] == "file_placeholders":
        return item["path"]
    if item["type"] == "http_placeholders":
        return item["url"]
    c = item["cmd"]
    return c if isinstance(c, str) else " ".join(c)


def _inside(real: str, base: str) -> bool:
    base = os.path.realpath(base)
    return real == base or real.startswith(base + os.sep)


# ------------------------------------------------------------------------------------------------
# execution


RULE_DOC = {"title": "T", "logsource": {"product": "windows"},
            "detection": {"sel": {"User|expand": "%ph%", "Image|endswith|expand": "\\%ph2%"}, "condition": "sel"}}


def execute(scenario: dict) -> dict:
    from sigma.processing.pipeline import ProcessingPipeline
    from sigma.processing.resolver import ProcessingPipelineResolver
    from sigsim import simbackend, world

    sc = scenario
    saved_env = {k: os.environ.get(k) for k in (EXT_ENV, VARS_ENV)}
    for k in (EXT_ENV, VARS_ENV):
        os.environ.pop(k, None)
    sim = Sim(sc)
    env: dict[str, str | None] = {EXT_ENV: None, VARS_ENV: None}
    env_at: dict[int, dict] = {}
    loads: dict[str, dict] = {}      # pipeline id -> grant of the *latest* load
    load_of_op: dict[int, dict] = {}
    objs: dict[str, Any] = {}
    executed: dict[str, set] = {}    # pipeline id -> vars files executed by its latest load
    token_owner: dict[str, str] = {}
    probes: dict[str, int] = {}
    for pid, doc in sc["pipelines"].items():
        for it in _items(doc, ("file_placeholders", "http_placeholders", "command_placeholders")):
            token_owner[_token_of(it)] = pid
        for it in _items(doc, ("template",)):
            if it.get("_escape"):
                token_owner[_token_of(it["_escape"])] = pid
                probes["template_text_calls_the_pipeline_loader"] = 1
            if it.get("_envescape"):
                probes["template_text_reaches_its_jinja_environment"] = 1
    faults: dict[str, int] = {}
    log: list[Any] = []
    violation = None
    outcome: list[str] = []
    try:
        for k, op in enumerate(sc["ops"]):
            sim.now = k
            env_at[k] = dict(env)
            kind = op["op"]
            if kind == "SetEnv":
                env[op["var"]] = op["value"]
                if op["value"] is None:
                    os.environ.pop(op["var"], None)
                else:
                    os.environ[op["var"]] = op["value"]
                core.merge_counts(faults, {f"env:{op['var'][8:]}={op['value']!r}": 1})
                if loads:
                    probes["env_flipped_between_load_and_use"] = 1
                outcome.append("E")
                env_at[k] = dict(env)
                continue
            if kind == "Load":
                pid = op["pipeline"]
                doc = sim.subst(copy.deepcopy(sc["pipelines"][pid]))
                vap = op.get("vars_allowed_paths")
                vap_t = tuple(sim.subst(vap)) if vap is not None else None
                args = {"allow_external_sources": op["allow_external_sources"],
                        "allow_template_vars": op["allow_template_vars"], "vars_allowed_paths": vap_t}
                src_path = os.path.join(sim.S, "A", "pipeline.yml")
                grant = {"ext": bool(op["allow_external_sources"]), "vars": bool(op["allow_template_vars"]),
                         "dirs": list(vap_t) if vap_t is not None else None, "op": k}

                def text() -> str:
                    t = world.dump_yaml([doc])
                    if op.get("yaml_tag"):
                        # a python tag in the document text: with a safe loader the load just fails
                        if op.get("yaml_tag_where") == "vars":
                            t += "vars:\n  " + op["yaml_tag"] + "\n" if "vars:" not in t else t.replace("vars:\n", "vars:\n  " + op["yaml_tag"] + "\n", 1)
                        else:
                            t += op["yaml_tag"] + "\n"
                        core.merge_counts(faults, {"yaml_python_tag_in_document_text": 1})
                    return t

                def do() -> str:
                    if op["via"] == "from_dict":
                        objs[pid] = ProcessingPipeline.from_dict(doc, **args)
                    elif op["via"] == "from_yaml":
                        objs[pid] = ProcessingPipeline.from_yaml(text(), **args)
                    elif op["via"] == "from_yaml_source_path":
                        if op.get("relative"):
                            with _cwd(os.path.dirname(src_path)):
                                objs[pid] = ProcessingPipeline.from_yaml(text(), source_path=os.path.basename(src_path), **args)
                        else:
                            objs[pid] = ProcessingPipeline.from_yaml(text(), source_path=src_path, **args)
                    else:
                        with open(src_path, "w") as fh:
                            fh.write(text())
                        if op.get("relative"):
                            with _cwd(os.path.dirname(src_path)):
                                objs[pid] = ProcessingPipelineResolver().resolve([os.path.basename(src_path)])
                        else:
                            objs[pid] = ProcessingPipelineResolver().resolve([src_path])
                    return "loaded"

                if op["via"] in ("from_yaml_source_path", "resolver_file") and grant["dirs"] is None:
                    grant["dirs"] = [os.path.join(sim.S, "A")]
                objs.pop(pid, None)
                load_of_op[k] = grant
                res = world.capture(do)
                if "ok" in res:
                    loads[pid] = grant
                sim.poll_tripwire()
                executed[pid] = {e["id"] for e in sim.events if e["t"] == k and e["kind"] == "vars"} if "ok" in res else set()
                log.append({"op": k, "res": res})
                outcome.append("L:" + ("ok" if "ok" in res else res["exc"]))
                core.merge_counts(faults, {"load:" + op["via"]: 1})
                if op.get("relative"):
                    core.merge_counts(faults, {"load:pipeline_file_named_by_bare_relative_path": 1})
                # secondary oracle: a vars file that may not be executed -> Sigma security error
                v2 = _check_load_denial(sc, op, grant, env_at[k], res, sim)
                if v2 and violation is None:
                    violation = v2
            elif kind == "Add":
                a, b = op["parts"]
                objs.pop(op["pipeline"], None)
                loads.pop(op["pipeline"], None)
                if a in objs and b in objs and a in loads and b in loads:
                    def combine(a=a, b=b, op=op):
                        objs[op["pipeline"]] = (objs[a] + objs[b]) if op["via"] == "+" else sum([objs[a], objs[b]])
                        return "combined"

                    res = world.capture(combine)
                    if "ok" in res:
                        da, db = loads[a]["dirs"], loads[b]["dirs"]
                        # the grant under which the combination is *used*: nothing the caller gave to either
                        # load is withheld (external sources are decided per item owner, see _permitted)
                        loads[op["pipeline"]] = {"ext": False, "vars": loads[a]["vars"] or loads[b]["vars"],
                                                 "dirs": None if da is None or db is None else da + db, "op": k}
                        executed[op["pipeline"]] = executed.get(a, set()) | executed.get(b, set())
                        probes["pipelines_of_two_loads_combined"] = 1
                        if loads[a]["ext"] != loads[b]["ext"]:
                            probes["combined_pipelines_differ_in_external_sources_grant"] = 1
                    outcome.append("A:" + ("ok" if "ok" in res else str(res.get("exc"))))
                    core.merge_counts(faults, {"compose:" + op["via"]: 1})
                else:
                    outcome.append("A:skip")
            elif kind == "Convert":
                pid = op["pipeline"]
                if pid not in objs:
                    outcome.append("C:skip")
                    continue
                b = simbackend.SimBackend(objs[pid], collect_errors=True)
                res = world.capture(lambda: b.convert(world.load_collection([RULE_DOC])))
                res["errors"] = world.errors_record(b.errors)
                sim.poll_tripwire()
                log.append({"op": k, "res": res})
                oc = "ok" if "ok" in res and not res["errors"] else (res.get("exc") or res["errors"][0]["exc"])
                outcome.append("C:" + oc)
                v2 = _check_convert_denial(sc, pid, loads.get(pid), env_at[k], res, sim, k) if pid in sc["pipelines"] else None
                if v2 and violation is None:
                    violation = v2
            # ---- capability model over the events of this op
            for ev in [e for e in sim.events if e["t"] == k]:
                core.merge_counts(faults, {"event:" + ev["kind"].split(":")[0]: 1})
                ok, why = _permitted(sc, ev, env_at[k], loads, load_of_op, token_owner, sim,
                                     executed.get(str(op.get("pipeline")), set()),
                                     loads.get(str(op.get("pipeline"))) if kind == "Convert" else None)
                if not ok and violation is None:
                    violation = {"oracle": "event-permitted-by-caller-or-environment", "kind": "unpermitted:" + ev["kind"].split(":")[0],
                                 "step": k, "got": ev, "want": why}
            if violation:
                break
    finally:
        sim.close()
        for kk, vv in saved_env.items():
            if vv is None:
                os.environ.pop(kk, None)
            else:
                os.environ[kk] = vv
    for ff in sc.get("fake_faults", {}).values():
        pass
    fired_faults = set()
    for e in sim.events:
        fk = sim._fault_for(e["id"])
        if fk and e["kind"] in ("cmd", "http", "file"):
            fired_faults.add(fk)
    for fk in fired_faults:
        core.merge_counts(faults, {"fake_fault:" + fk: 1})
    inj = sc.get("injected", {})
    smuggled = any(v for v in inj.values())
    io_items = any(_items(d, ("file_placeholders", "http_placeholders", "command_placeholders", "template")) for d in sc["pipelines"].values())
    if smuggled:
        probes["smuggled_keys"] = sum(len(v) for v in inj.values())
        if any(x.count("/") == 1 for v in inj.values() for x in v):
            probes["smuggled_key_at_document_root"] = 1
        if any(x.count("items[") + x.count("finalizers[") >= 2 for v in inj.values() for x in v):
            probes["smuggled_key_in_nested_item"] = 1
    shape = []
    for pid, d in sorted(sc["pipelines"].items()):
        shape.append(sorted((it["type"], it.get("_vf", "")) for it in _items(d, ("file_placeholders", "http_placeholders", "command_placeholders", "template"))))
    sig = core.digest([shape, sorted(x for v in inj.values() for x in v),
                       [(o["op"], o.get("via"), o.get("allow_external_sources"), o.get("allow_template_vars"),
                         bool(o.get("vars_allowed_paths")), o.get("var"), o.get("value")) for o in sc["ops"]], outcome])
    return {"violation": violation, "log": {"events": sim.events, "ops": log}, "faults": faults, "probes": probes,
            "steps": len(sc["ops"]), "signature": sig, "nontrivial": smuggled and io_items}


def _permitted(sc: dict, ev: dict, env: dict, loads: dict, load_of_op: dict, token_owner: dict, sim: Sim,
               executed: set, use_grant: dict | None = None) -> tuple[bool, str]:
    kind = ev["kind"]
    if kind == "varscall":
        # a template called a helper exported by a vars file: fine iff that file was executed (and so
        # permitted, see "vars" below) by the load of the very pipeline that is being used
        if ev["id"] in executed:
            return True, "helper of a vars file this pipeline's load executed"
        return False, (f"helper of vars file {ev['id']} called by a pipeline whose load did not execute that file "
                       f"(executed for it: {sorted(executed)})")
    if kind in ("cmd", "http", "file"):
        if _truthy_env(env[EXT_ENV]):
            return True, "env"
        tok = ev["id"]
        owner = token_owner.get(tok)
        if owner is None:
            for t, pid in token_owner.items():
                if t in tok or tok in t:
                    owner = pid
        if owner is not None and loads.get(owner, {}).get("ext"):
            return True, "caller granted external sources for " + owner
        return False, f"{kind} event for an item of {owner}: caller did not allow external sources and {EXT_ENV}={env[EXT_ENV]!r}"
    if kind == "vars":
        grant = load_of_op.get(ev["t"])
        if grant is None:
            # not during a load: while a pipeline is used.  The library never does that by itself; if
            # something in the document brings it about, the grant of that pipeline's load counts
            grant = use_grant
        if grant is None:
            return False, "vars file executed outside of a load and outside the use of a loaded pipeline"
        if not (grant["vars"] or _truthy_env(env[VARS_ENV])):
            return False, f"vars file executed: caller did not allow it and {VARS_ENV}={env[VARS_ENV]!r}"
        real = ev["id"].replace("@S@", sim.S)
        if grant["dirs"] is not None and not any(_inside(real, b) for b in grant["dirs"]):
            return False, f"vars file {ev['id']} executed outside the allowed base directories {grant['dirs']}"
        return True, "granted"
    # anything the audit hook or the socket fakes saw that no fake accounted for
    return False, "capability reached through a route that is never permitted in this world"


class _cwd:
    """working directory for the duration of one load (restored whatever happens)"""

    def __init__(self, path: str):
        self.path = path

    def __enter__(self):
        self.old = os.getcwd()
        os.chdir(self.path)

    def __exit__(self, *exc):
        os.chdir(self.old)
        return False


def _single(sc: dict, pid: str, kinds: tuple[str, ...]) -> dict | None:
    its = _items(sc["pipelines"][pid], kinds)
    return its[0] if len(its) == 1 else None


def _check_load_denial(sc: dict, op: dict, grant: dict, env: dict, res: dict, sim: Sim) -> dict | None:
    """A load that would have to execute a vars file it may not execute must fail with the Sigma
    security error (only asserted in the clean situation: exactly one template item with vars, no key
    smuggled at the document root, nest post-processing absent)."""
    pid = op["pipeline"]
    doc = sc["pipelines"][pid]
    it = _single(sc, pid, ("template",))
    if it is None or "vars" not in it or sc.get("injected", {}).get(pid) or "no_such_item_type" in core.jdump(doc) or op.get("yaml_tag"):
        return None  # a document with smuggled keys or a typo may legitimately be rejected for those first
    if any(p.get("type") == "nest" for p in doc.get("postprocessing", [])):
        return None
    allowed = grant["vars"] or _truthy_env(env[VARS_ENV])
    real = os.path.realpath(it["vars"].replace("@S@", sim.S))
    inside = grant["dirs"] is None or any(_inside(real, b) for b in grant["dirs"])
    if allowed and inside:
        return None
    if "ok" in res:
        # loaded although the vars file could not be executed: only fine if it really was not executed
        return None
    if res.get("exc") != "SigmaSecurityError":
        return {"oracle": "denied-capability-fails-with-sigma-security-error", "kind": "load:" + str(res.get("exc")),
                "got": res, "want": "SigmaSecurityError"}
    return None


def _check_convert_denial(sc: dict, pid: str, grant: dict | None, env: dict, res: dict, sim: Sim, k: int) -> dict | None:
    """Exactly one external-source item, at top level and first, not permitted, nothing cached:
    the conversion must fail with the Sigma security error."""
    doc = sc["pipelines"][pid]
    it = _single(sc, pid, ("file_placeholders", "http_placeholders", "command_placeholders"))
    if it is None or grant is None or not doc.get("transformations") or doc["transformations"][0] is not it:
        return None
    if grant["ext"] or _truthy_env(env[EXT_ENV]):
        return None
    tok = _token_of(it)
    if any(e["id"] == tok or e["id"] == tok.replace(sim.S, "@S@") for e in sim.events if e["t"] < k):
        return None  # fetched earlier while it was permitted: values may be cached
    excs = [res.get("exc")] + [e["exc"] for e in res.get("errors", [])]
    if "SigmaSecurityError" not in excs:
        return {"oracle": "denied-capability-fails-with-sigma-security-error", "kind": "convert:" + str(excs),
                "got": res, "want": "SigmaSecurityError"}
    return None


# ------------------------------------------------------------------------------------------------


def shrink(sc: dict) -> Iterable[dict]:
    ops = sc["ops"]
    for i in reversed(range(len(ops))):
        o = ops[i]
        if o["op"] == "Load" and any(x.get("pipeline") == o["pipeline"] for x in ops[i + 1:]) and \
                not any(x["op"] == "Load" and x["pipeline"] == o["pipeline"] for x in ops[:i]):
            continue
        c = copy.deepcopy(sc)
        del c["ops"][i]
        yield c
    used = {o.get("pipeline") for o in ops}
    for pid in sorted(sc["pipelines"]):
        if pid not in used:
            c = copy.deepcopy(sc)
            del c["pipelines"][pid]
            c["injected"].pop(pid, None)
            yield c
    for k in list(sc.get("fake_faults", {})):
        c = copy.deepcopy(sc)
        del c["fake_faults"][k]
        yield c

    def walk(node: Any, path: list) -> Iterable[list]:
        if isinstance(node, dict):
            for key in ("transformations", "postprocessing", "finalizers", "items"):
                if isinstance(node.get(key), list):
                    for i, ch in enumerate(node[key]):
                        yield path + [key, i]
                        yield from walk(ch, path + [key, i])

    for pid in sorted(sc["pipelines"]):
        paths = list(walk(sc["pipelines"][pid], []))
        for p in reversed(paths):  # drop an item
            c = copy.deepcopy(sc)
            node = c["pipelines"][pid]
            for step in p[:-1]:
                node = node[step]
            if len(node) > 1 or len(p) == 2:
                del node[p[-1]]
                yield c
        for p in [[]] + paths:  # drop injected keys one by one
            node = sc["pipelines"][pid]
            for step in p:
                node = node[step]
            if isinstance(node, dict):
                for key in ("allow_external_sources", "allow_template_vars", "vars_allowed_paths", "format", "method"):
                    if key in node:
                        c = copy.deepcopy(sc)
                        n2 = c["pipelines"][pid]
                        for step in p:
                            n2 = n2[step]
                        del n2[key]
                        yield c
        for p in paths:  # un-nest: replace a nest by its first child
            node = sc["pipelines"][pid]
            for step in p:
                node = node[step]
            if isinstance(node, dict) and node.get("type") in ("nest", "nested"):
                key = "items" if node["type"] == "nest" else "finalizers"
                if node.get(key):
                    c = copy.deepcopy(sc)
                    n2 = c["pipelines"][pid]
                    for step in p[:-1]:
                        n2 = n2[step]
                    n2[p[-1]] = copy.deepcopy(node[key][0])
                    yield c
    for i, o in enumerate(ops):
        if o["op"] == "Load":
            for key, simple in (("allow_external_sources", False), ("allow_template_vars", False), ("vars_allowed_paths", None), ("via", "from_dict")):
                if o.get(key) != simple:
                    c = copy.deepcopy(sc)
                    c["ops"][i][key] = simple
                    yield c


def tags(sc: dict, violation: dict) -> set[str]:
    return set()

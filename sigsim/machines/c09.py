"""
C09 - rule references resolve the same way whatever the document order.

The "network" delivers the documents of a rule set in any order, through any of four load paths,
split over any files (directory enumeration order chosen by the simulator) or merged from partial
collections in any bracketing.  Oracle = a reference model computed from the *set* of documents.
"""

from __future__ import annotations

import copy
import itertools
import math
import os
import re
import shutil
from random import Random
from typing import Any, Iterable

from sigsim import core, gen

PROPERTY = "C09"
QUICK_RUNS = 700
RUN_TIMEOUT = 120.0
RULE = (
    "seeded generator: rule set of 1-4 plain rules, 0-3 correlation rules referencing by name or id "
    "(chains up to depth 3, generate on/off; 20% of the correlation rules may give a referenced rule mixed flags, for which only order-independence is asserted), unrelated rules, "
    "optionally one dangling reference; per rule set a scheduled list of (permutation, delivery) pairs - "
    "all permutations when the set has <= 4 documents (<= 5 in the thorough tier), a seeded sample "
    "otherwise - each executed in its own fresh world; deliveries: from_yaml stream, from_dicts, "
    "load_ruleset over a scratch tree (file split and enumeration order chosen by the simulator), merge of "
    "2-3 partial collections flat or nested. non-trivial = >=1 correlation rule and >=1 executed order in "
    "which a referenced rule arrives after its referrer; distinct = distinct (reference graph shape, "
    "generate flags, dangling, delivery kinds used)"
)
REAL = ["sigma.* (all)", "PyYAML", "real files in a scratch directory removed by the run"]
STUB = ["directory enumeration order (pathlib.Path.glob wrapped: the simulator returns the listing in the order it chooses)"]
ASSUMPTIONS = [
    "partial collections for the merge path are loaded with resolve_references=False (as load_ruleset does)",
    "one referenced rule never has mixed generate flags (the statement does not define that case)",
    "queries are attributed to rules through the <title> tag the SimBackend puts into query_expression",
]

_TITLE = re.compile(r"<(R\d+|C\d+)>")


def generate(streams: core.Streams, tier: str) -> dict:
    w, s = streams["workload"], streams["schedule"]
    k = w.randint(1, 4)
    docs: list[dict] = []
    for i in range(k):
        d = gen.gen_rule(w, f"R{i}", tricky=0.0, multi_cond=0.25, with_meta=0.2, special=0.15,
                         table=[t for t in gen.MODIFIER_TABLE if t[1] in ("any", "str", "strlist", "list", "num")])
        d["id"] = gen.UUIDS[i]
        d["name"] = f"rule_{i}"
        if gen.chance(w, 0.05):
            d["name"] = "deadbeefdeadbeefdeadbeefdeadbee" + str(i)  # a name that reads like a UUID
        d.pop("fields", None)
        docs.append(d)
    n_corr = w.choice([0, 1, 1, 2, 2, 3])
    corr: list[dict] = []
    gen_flag: dict[str, bool] = {}  # referenced title -> generate flag of all its referrers
    for j in range(n_corr):
        cands = [d for d in docs] + [c for c in corr if _depth(c, corr) < 3]
        refs_docs = w.sample(cands, min(len(cands), w.randint(1, 3)))
        # one generate flag for the whole correlation: must agree with flags already fixed
        fixed = {gen_flag[r["title"]] for r in refs_docs if r["title"] in gen_flag}
        if gen.chance(w, 0.2):
            # mixed generate flags for one referenced rule: what that rule emits is not defined by the
            # statement (the model leaves it open), but it must not depend on the document order
            g = gen.chance(w, 0.5)
        else:
            if len(fixed) > 1:
                refs_docs = [r for r in refs_docs if gen_flag.get(r["title"], True) is True] or refs_docs[:1]
                fixed = {gen_flag[r["title"]] for r in refs_docs if r["title"] in gen_flag}
            g = fixed.pop() if fixed else gen.chance(w, 0.35)
        refs = [(r["name"] if gen.chance(w, 0.5) else r["id"]) for r in refs_docs]
        c = gen.gen_correlation(w, f"C{j}", refs, rid=gen.UUIDS[5 + j], name=f"corr_{j}", generate=g)
        if c["correlation"]["type"] in ("temporal", "temporal_ordered") and "condition" in c["correlation"]:
            c["correlation"]["condition"].pop("field", None)
        if gen.chance(w, 0.25):
            # extended condition: the references exist only in the condition text, there is no rules list
            c["correlation"]["type"] = gen.pick(w, ["temporal", "temporal_ordered"])
            expr = refs_docs[0]["name"]
            for r in refs_docs[1:]:
                expr += gen.pick(w, [" and ", " or ", " and not "]) + r["name"]
            c["correlation"]["condition"] = expr
            del c["correlation"]["rules"]
        if "rules" in c["correlation"] and gen.chance(w, 0.3):
            # a field alias: its mapping keys are rule references too
            c["correlation"]["aliases"] = {"al": {gen.pick(w, refs): "User"}}
            c["correlation"]["group-by"] = ["al"]
        for r in refs_docs:
            gen_flag[r["title"]] = g
        c["_refs"] = [r["title"] for r in refs_docs]
        corr.append(c)
    dangling = None
    if corr and gen.chance(w, 0.12):
        victim = gen.pick(w, corr)
        if gen.chance(w, 0.4):
            # the missing rule is referred to by a field alias only
            victim["correlation"]["aliases"] = {"al": {"no_such_rule": "User"}}
            victim["correlation"]["group-by"] = ["al"]
        elif "rules" in victim["correlation"]:
            victim["correlation"]["rules"] = list(victim["correlation"]["rules"]) + ["no_such_rule"]
        else:
            victim["correlation"]["condition"] += " and no_such_rule"
        dangling = victim["title"]
    if gen.chance(w, 0.06):
        # nobody in the set carries a name or id; one correlation rule refers to a rule that is not there
        for d in docs:
            d.pop("id", None)
            d.pop("name", None)
        corr = [gen.gen_correlation(w, "C0", ["no_such_rule"], generate=False)]
        corr[0]["_refs"] = []
        dangling = "C0"
    all_docs = docs + corr
    n = len(all_docs)
    # schedule of (permutation, delivery)
    limit = 5 if tier == "thorough" else 4
    if n <= limit:
        perms = [list(p) for p in itertools.permutations(range(n))]
        exhaustive = True
    else:
        perms = []
        seen = set()
        want = 40 if tier == "thorough" else 14
        perms.append(list(range(n)))
        perms.append(list(reversed(range(n))))
        while len(perms) < want:
            p = list(range(n))
            s.shuffle(p)
            if tuple(p) not in seen:
                seen.add(tuple(p))
                perms.append(p)
        exhaustive = False
    schedule = []
    for p in perms:
        schedule.append({"perm": p, "delivery": _delivery(s, len(p))})
    refs_map = {c["title"]: c.pop("_refs") for c in corr}
    return {"documents": all_docs, "refs": refs_map, "dangling": dangling, "schedule": schedule,
            "exhaustive_permutations": exhaustive, "n_permutations_total": math.factorial(n),
            "cls": gen.pick(s, ["SimBackend", "SimBackendNE", "SimBackendIn"])}


def _depth(c: dict, corr: list[dict]) -> int:
    by_title = {x["title"]: x for x in corr}
    d = 1
    for t in c.get("_refs", []):
        if t in by_title:
            d = max(d, 1 + _depth(by_title[t], corr))
    return d


def _chunks(s: Random, n: int, k: int) -> list[int]:
    """split n items into k non-empty consecutive chunks: returns chunk sizes"""
    k = max(1, min(k, n))
    cuts = sorted(s.sample(range(1, n), k - 1)) if k > 1 else []
    sizes = [b - a for a, b in zip([0] + cuts, cuts + [n])]
    return sizes


def _delivery(s: Random, n: int) -> dict:
    kind = gen.pick(s, ["from_yaml", "from_dicts", "load_ruleset", "merge", "reuse_objects"])
    if kind == "reuse_objects":
        # the rule objects were part of another, already resolved (and maybe converted) collection before;
        # some of them are replaced by freshly loaded copies of the same documents
        return {"kind": kind, "replace": [i for i in range(n) if gen.chance(s, 0.3)], "preconvert": gen.chance(s, 0.5),
                "via": gen.pick(s, ["constructor", "merge"])}
    if kind == "load_ruleset":
        sizes = _chunks(s, n, s.randint(1, min(n, 4)))
        names = []
        for i in range(len(sizes)):
            sub = gen.pick(s, ["", "", "sub/", "sub/deep/", "other/"])
            names.append(f"{sub}{gen.pick(s, ['a', 'b', 'm', 'z'])}{i}.yml")
        return {"kind": kind, "sizes": sizes, "files": names}
    if kind == "merge":
        sizes = _chunks(s, n, s.randint(2, 3)) if n >= 2 else [n]
        return {"kind": kind, "sizes": sizes, "nested": gen.chance(s, 0.5), "inner_resolve": gen.chance(s, 0.3)}
    return {"kind": kind}


# ------------------------------------------------------------------------------------------------
# reference model (computed from the set of documents)


def model(sc: dict) -> dict:
    docs = sc["documents"]
    titles = [d["title"] for d in docs]
    refs = sc["refs"]
    referenced_by: dict[str, list[str]] = {t: [] for t in titles}
    gen_of = {d["title"]: bool(d["correlation"].get("generate", False)) for d in docs if "correlation" in d}
    for c, rs in refs.items():
        for r in rs:
            referenced_by[r].append(c)
    emits: dict[str, Any] = {}
    for t in titles:
        rb = referenced_by[t]
        flags = {gen_of[c] for c in rb}
        # mixed flags: not defined by the statement -> None (only order independence is asserted)
        emits[t] = None if len(flags) > 1 else ((not rb) or all(gen_of[c] for c in rb))
    return {"emits": emits, "referenced_by": referenced_by}


# ------------------------------------------------------------------------------------------------
# worlds


def _load(sc: dict, entry: dict, scratch: str) -> Any:
    from sigma.collection import SigmaCollection
    from sigsim import world

    docs = [copy.deepcopy(sc["documents"][i]) for i in entry["perm"]]
    dl = entry["delivery"]
    kind = dl["kind"]
    if kind == "from_yaml":
        return SigmaCollection.from_yaml(world.dump_yaml(docs))
    if kind == "from_dicts":
        return SigmaCollection.from_dicts(docs)
    if kind == "load_ruleset":
        paths = []
        pos = 0
        root = os.path.join(scratch, "rules")
        for size, name in zip(dl["sizes"], dl["files"]):
            p = os.path.join(root, name)
            os.makedirs(os.path.dirname(p), exist_ok=True)
            with open(p, "w") as fh:
                fh.write(world.dump_yaml(docs[pos:pos + size]))
            pos += size
            paths.append(p)
        order = {p: i for i, p in enumerate(paths)}

        def key(found: list) -> list:
            return sorted(found, key=lambda x: order.get(str(x), 10**6))

        with world.GlobOrder(key) as g:
            coll = SigmaCollection.load_ruleset([root])
            assert g.calls >= 1
        return coll
    if kind == "merge":
        parts = []
        pos = 0
        for size in dl["sizes"]:
            parts.append(SigmaCollection.from_dicts(docs[pos:pos + size], resolve_references=False))
            pos += size
        if dl.get("nested") and len(parts) >= 3:
            inner = SigmaCollection.merge(parts[:2], resolve_references=False)
            return SigmaCollection.merge([inner, parts[2]])
        if dl.get("nested") and len(parts) == 2:
            inner = SigmaCollection.merge(parts[:1], resolve_references=False)
            return SigmaCollection.merge([inner, parts[1]])
        return SigmaCollection.merge(parts)
    if kind == "reuse_objects":
        # history: a first collection with every document (plus a stand-in for a missing target, so that
        # it resolves), loaded, resolved and possibly converted; the collection under test is built from
        # those very rule objects in the scheduled order, some replaced by fresh copies, the stand-in left out
        from sigma.correlations import SigmaCorrelationRule
        from sigma.rule import SigmaRule
        from sigsim import simbackend

        first_docs = [copy.deepcopy(d) for d in sc["documents"]]
        if sc["dangling"]:
            first_docs.insert(0, {"title": "Standin", "name": "no_such_rule", "logsource": {"category": "test"},
                                  "detection": {"sel": {"a": "b"}, "condition": "sel"}})
        first = SigmaCollection.from_dicts(first_docs)
        if dl.get("preconvert"):
            world.capture(lambda: simbackend.CLASSES[sc["cls"]]().convert(first))
        by_title = {r.title: r for r in first.rules}
        objs = []
        for pos_, i in enumerate(entry["perm"]):
            d = sc["documents"][i]
            if pos_ in dl.get("replace", []):
                one = SigmaCollection.from_dicts([copy.deepcopy(d)], resolve_references=False)
                objs.append(one.rules[0])
            else:
                objs.append(by_title[d["title"]])
        if dl.get("via") == "merge":
            half = max(1, len(objs) // 2)
            parts = [SigmaCollection(objs[:half], resolve_references=False)]
            if objs[half:]:
                parts.append(SigmaCollection(objs[half:], resolve_references=False))
            return SigmaCollection.merge(parts)
        return SigmaCollection(objs)
    raise core.HarnessError("unknown delivery " + kind)


def _one_order(args: tuple[dict, dict]) -> dict:
    from sigsim import simbackend, world
    from sigma.correlations import SigmaCorrelationRule

    sc, entry = args
    scratch = world.scratch_dir()
    try:
        out: dict[str, Any] = {}
        try:
            coll = _load(sc, entry, scratch)
        except Exception as e:
            out["load"] = world.exc_record(e)
            return out
        out["load"] = "ok"
        out["order_after_load"] = [r.title for r in coll.rules]
        b = simbackend.CLASSES[sc["cls"]]()
        res = world.capture(lambda: b.convert(coll))
        out["convert"] = res
        # the order the conversion used (convert() resolves and orders the collection itself)
        order = [r.title for r in coll.rules]
        out["order"] = order
        pos = {t: i for i, t in enumerate(order)}
        bad = []
        try:
            for r in coll.rules:
                if isinstance(r, SigmaCorrelationRule):
                    for ref in r.referenced_rules:
                        if pos[ref.rule.title] > pos[r.title]:
                            bad.append([ref.rule.title, r.title])
        except (AttributeError, KeyError):  # a refactoring changed how references are stored:
            bad = []                        # the order oracle is skipped, the conversion oracles remain
        out["misordered"] = bad
        if "ok" in res:
            by: dict[str, list[str]] = {}
            unattributed = []
            for q in res["ok"]:
                m = _TITLE.search(q) if isinstance(q, str) else None
                # the tag of the rule a query belongs to is the *first* tag for plain rules and the
                # one directly before CORR[ for correlation queries
                if isinstance(q, str) and "CORR[" in q:
                    m2 = re.match(r"<(C\d+)> CORR\[", q)
                    t = m2.group(1) if m2 else None
                else:
                    t = m.group(1) if m else None
                if t is None:
                    unattributed.append(q)
                else:
                    by.setdefault(t, []).append(q)
            out["by_title"] = {t: sorted(v) for t, v in sorted(by.items())}
            out["unattributed"] = unattributed
        return out
    finally:
        shutil.rmtree(scratch, ignore_errors=True)


def execute(scenario: dict) -> dict:
    sc = scenario
    mdl = model(sc)
    n = len(sc["documents"])
    titles = [d["title"] for d in sc["documents"]]
    refs = sc["refs"]
    # canonical order: referenced rules first (documents are generated in that order already)
    canon_entry = {"perm": list(range(n)), "delivery": {"kind": "from_dicts"}}
    st, canon = core.run_in_fork(_one_order, (sc, canon_entry), 20.0)
    if st != "ok":
        raise core.HarnessError(f"canonical world failed: {st}: {canon}")
    faults: dict[str, int] = {}
    probes: dict[str, int] = {}
    violation = None
    log = {"canonical": canon, "orders": []}
    late = 0
    kinds = set()
    steps = 0
    for entry in sc["schedule"]:
        steps += 1
        st, got = core.run_in_fork(_one_order, (sc, entry), 20.0)
        if st != "ok":
            raise core.HarnessError(f"order world failed: {st}: {got}")
        kind = entry["delivery"]["kind"]
        kinds.add(kind)
        core.merge_counts(faults, {"delivery:" + kind: 1})
        posn = {titles[i]: j for j, i in enumerate(entry["perm"])}
        is_late = any(posn[r] > posn[c] for c, rs in refs.items() for r in rs)
        if is_late:
            late += 1
            core.merge_counts(faults, {"reordering:referenced_rule_arrives_after_referrer": 1})
        if kind == "load_ruleset" and len(entry["delivery"]["sizes"]) > 1:
            core.merge_counts(faults, {"reordering:directory_enumeration_order_imposed": 1})
        if kind == "merge" and entry["delivery"].get("nested"):
            core.merge_counts(faults, {"delivery:merge_nested": 1})
        log["orders"].append({"entry": entry, "got": got} if len(log["orders"]) < 2 else {"entry": entry})
        v = _judge(sc, mdl, canon, entry, got)
        if v is not None and violation is None:
            v["entry"] = entry
            violation = v
            break
    probes["orders_executed"] = steps
    probes["orders_with_late_referenced_rule"] = late
    if sc["dangling"]:
        probes["dangling_reference"] = 1
    if any(mdl["referenced_by"][t] and t.startswith("C") for t in titles):
        probes["correlation_referenced_by_correlation"] = 1
    if any(e is None for e in mdl["emits"].values()):
        probes["rule_referenced_with_mixed_generate_flags"] = 1
    if any(e is False for e in mdl["emits"].values()):
        probes["suppressed_rule"] = 1
    if any(e and mdl["referenced_by"][t] for t, e in mdl["emits"].items()):
        probes["referenced_with_generate"] = 1
    if sc["exhaustive_permutations"]:
        probes["rule_sets_with_all_permutations"] = 1
    shape = sorted((c, sorted(rs)) for c, rs in refs.items())
    sig = core.digest([n, [[c, len(rs), [r[0] for r in rs]] for c, rs in shape],
                       sorted(mdl["emits"].items()), bool(sc["dangling"]), sorted(kinds)])
    return {"violation": violation, "log": log, "faults": faults, "probes": probes, "steps": steps,
            "signature": sig, "nontrivial": bool(refs) and late > 0,
            "orders": steps, "perm_total": sc["n_permutations_total"],
            "perm_exhaustive": sc["exhaustive_permutations"]}


def _judge(sc: dict, mdl: dict, canon: dict, entry: dict, got: dict) -> dict | None:
    if sc["dangling"]:
        # (i) a reference to a missing rule is a Sigma error at load time, for every order
        if got["load"] == "ok":
            return {"oracle": "dangling-reference-is-load-time-sigma-error", "kind": "loaded",
                    "got": got, "want": "Sigma error at load"}
        if not got["load"].get("sigma"):
            return {"oracle": "dangling-reference-is-load-time-sigma-error", "kind": "non-sigma-exception",
                    "got": got["load"], "want": "Sigma error at load"}
        return None
    # (ii) every order loads and converts
    if got["load"] != "ok":
        return {"oracle": "every-order-loads", "kind": "load-failed", "got": got["load"], "want": "ok"}
    if "ok" not in got["convert"]:
        return {"oracle": "every-order-converts", "kind": "convert-failed:" + got["convert"].get("exc", "?"),
                "got": {"order": got["order"], "exc": got["convert"]}, "want": "ok"}
    if got["misordered"]:
        return {"oracle": "referenced-rule-converted-before-referrer", "kind": "misordered",
                "got": {"order": got["order"], "pairs": got["misordered"]}, "want": "referenced first"}
    if got["unattributed"]:
        raise core.HarnessError("unattributed query: " + repr(got["unattributed"])[:300])
    # (v) emission model
    undefined = {t for t, e in mdl["emits"].items() if e is None}
    emitted = set(got["by_title"]) - undefined
    want_emitted = {t for t, e in mdl["emits"].items() if e}
    if emitted != want_emitted:
        return {"oracle": "own-query-iff-unreferenced-or-generate", "kind": "emission-set-differs",
                "got": sorted(emitted), "want": sorted(want_emitted)}
    # (iv) same queries per rule as the canonical order
    if "by_title" in canon and got["by_title"] != canon["by_title"]:
        return {"oracle": "queries-per-rule-independent-of-order", "kind": "queries-differ",
                "got": got["by_title"], "want": canon["by_title"]}
    return None


def extra_coverage(recs: list[dict]) -> dict:
    return {}


# ------------------------------------------------------------------------------------------------


def shrink(sc: dict) -> Iterable[dict]:
    # keep only the violating schedule entry first
    if len(sc["schedule"]) > 1:
        for i in range(len(sc["schedule"])):
            c = copy.deepcopy(sc)
            c["schedule"] = [c["schedule"][i]]
            yield c
    # drop a document (and renumber permutations / references)
    n = len(sc["documents"])
    for i in reversed(range(n)):
        t = sc["documents"][i]["title"]
        if any(t in rs for rs in sc["refs"].values()) and not sc["dangling"]:
            # dropping a referenced rule would create a dangling reference: drop the referrers' ref instead
            continue
        c = copy.deepcopy(sc)
        del c["documents"][i]
        c["refs"].pop(t, None)
        if c["dangling"] == t:
            continue
        for e in c["schedule"]:
            e["perm"] = [p - (1 if p > i else 0) for p in e["perm"] if p != i]
            e["delivery"] = _fit_delivery(e["delivery"], len(e["perm"]))
        c["n_permutations_total"] = math.factorial(n - 1)
        yield c
    # drop one reference of a correlation that has several
    for j, d in enumerate(sc["documents"]):
        if "correlation" in d and "rules" in d["correlation"] and len(sc["refs"].get(d["title"], [])) > 1:
            for k in range(len(sc["refs"][d["title"]])):
                c = copy.deepcopy(sc)
                del c["refs"][d["title"]][k]
                del c["documents"][j]["correlation"]["rules"][k]
                yield c
    # simplify delivery
    for i, e in enumerate(sc["schedule"]):
        if e["delivery"]["kind"] != "from_dicts":
            c = copy.deepcopy(sc)
            c["schedule"][i]["delivery"] = {"kind": "from_dicts"}
            yield c
    # simplify rule bodies
    for j, d in enumerate(sc["documents"]):
        if "detection" in d:
            simple = {"sel": {"User": "x"}, "condition": "sel"}
            if d["detection"] != simple:
                c = copy.deepcopy(sc)
                c["documents"][j]["detection"] = simple
                yield c
        else:
            for k in ("group-by",):
                if k in d["correlation"]:
                    c = copy.deepcopy(sc)
                    del c["documents"][j]["correlation"][k]
                    yield c
    if sc["cls"] != "SimBackend":
        c = copy.deepcopy(sc)
        c["cls"] = "SimBackend"
        yield c


def _fit_delivery(dl: dict, n: int) -> dict:
    if dl["kind"] in ("load_ruleset", "merge"):
        sizes = list(dl["sizes"])
        while sum(sizes) > n:
            for i in reversed(range(len(sizes))):
                if sizes[i] > 0 and sum(sizes) > n:
                    sizes[i] -= 1
        keep = [i for i, x in enumerate(sizes) if x > 0]
        if not keep or (dl["kind"] == "merge" and len(keep) < 1):
            return {"kind": "from_dicts"}
        out = dict(dl)
        out["sizes"] = [sizes[i] for i in keep]
        if dl["kind"] == "load_ruleset":
            out["files"] = [dl["files"][i] for i in keep]
        return out
    if dl["kind"] == "reuse_objects":
        out = dict(dl)
        out["replace"] = [i for i in dl.get("replace", []) if i < n]
        return out
    return dl


def tags(sc: dict, violation: dict) -> set[str]:
    return set()

"""
C20 - output is byte-identical across processes, hash seeds and random draws.

The "schedule" is what a process start fixes: (PYTHONHASHSEED, seed or forced values of the library's
random draws, heap layout).  One evaluation starts the same driver as m real interpreters, each with
its own tuple, and compares everything they print.
"""

from __future__ import annotations

import copy
import json
import os
import re
import shutil
import subprocess
import sys
from random import Random
from typing import Any, Iterable

from sigsim import core, gen

PROPERTY = "C20"
QUICK_RUNS = 160
RUN_TIMEOUT = 120.0
RULE = (
    "seeded generator: corpus of 2-6 rules (+0-2 filters, +0-2 correlation rules incl. malformed conditions with "
    "several invalid keys) and a pipeline rich in constructs that can carry order or random names (one-to-many "
    "field mappings, nested pipelines, add_condition, regex flags, condition expressions with unreferenced "
    "items, templates); one evaluation = the driver (load, convert with collect_errors, record queries / "
    "output / load errors / error records / sorted validation issues) started as m=4..6 real interpreters with "
    "distinct (PYTHONHASHSEED, random seed or forced draw list incl. draws colliding with existing detection "
    "names, heap-shift seed), ASLR disabled when setarch -R is permitted. non-trivial = corpus contains >=1 "
    "order-carrying construct and the m configurations contain >=3 distinct hash seeds; distinct = distinct "
    "(construct kinds present, outcome classes, config kinds)"
)
REAL = ["sigma.* in real, separately started CPython interpreters", "PyYAML", "pyparsing", "jinja2"]
STUB = ["random.choices only in configurations with forced draws (returns what the scenario says)"]
ASSUMPTIONS = [
    "hash order and heap layout cannot be varied inside one process: every configuration is a real interpreter start",
    "validation issues are compared as a sorted multiset (C19 promises a set, not an order)",
]

DRIVER = os.path.join(os.path.dirname(os.path.dirname(os.path.abspath(__file__))), "c20_driver.py")
_RANDOM_ID = re.compile(r"_(?:cond|filt)_(?!undefined_)[a-z]{6,}")  # the drawn part, however long it is
_ADDR = re.compile(r"0x[0-9a-fA-F]{8,}")


def generate(streams: core.Streams, tier: str) -> dict:
    w, s, f = streams["workload"], streams["schedule"], streams["fault"]
    kinds: set[str] = set()
    n = w.randint(2, 6)
    docs: list[dict] = []
    for i in range(n):
        d = gen.gen_rule(w, f"R{i}", tricky=0.2, multi_cond=0.25)
        d["id"] = gen.UUIDS[i]
        d["name"] = f"rule_{i}"
        docs.append(d)
        if any("|re|i" in k for det in d["detection"].values() if isinstance(det, dict) for k in det):
            kinds.add("regex_flags")
    forced: list[str] = []
    if gen.chance(w, 0.2):
        # collection action: a global document contributes several detections / fields to later rules
        glob = {"action": "global", "detection": {"sel_g1": {"g.a": "1", "g.b": "2", "g.c": "3"},
                                                  "sel_g2": {"g.d": "4"}, "sel_g3": {"g.e": "5"}}}
        docs.insert(0, glob)
        for d in docs[1:]:
            if "detection" in d and gen.chance(w, 0.7):
                first = next(k for k in d["detection"] if k != "condition")
                d["detection"]["condition"] = f"{first} or 1 of sel_g*"
        kinds.add("global_action_document")
    if gen.chance(f, 0.06):
        victim = gen.pick(w, [d for d in docs if "detection" in d and "title" in d])
        first = next(k for k in victim["detection"] if k != "condition")
        victim["detection"]["condition"] = f"{first} not {first}"  # syntax error reported at conversion
        kinds.add("condition_syntax_error")
    # filters, some with detection names starting with digit / underscore
    for i in range(w.choice([0, 0, 1, 1, 2, 2])):
        names = w.sample(["selection", "flt", "sel_2", "1st", "_under", "x-y", "exclude_a", "exclude_b"], 2)
        rules_only = [d for d in docs if "detection" in d and "title" in d]
        target = "any" if gen.chance(w, 0.6) else [gen.pick(w, rules_only)["name"]]
        ls = copy.deepcopy(gen.pick(w, rules_only)["logsource"])
        docs.append(gen.gen_filter(w, f"F{i}", target, ls, names))
        kinds.add("filter")
        if gen.chance(f, 0.08):  # a broken filter: its condition names a detection it does not define
            docs[-1]["filter"]["condition"] = gen.pick(f, ["not undefined_det", "not undefined-det", "not 1undefined"])
            kinds.add("filter_condition_names_undefined_detection")
    # correlation rules, some malformed
    for i in range(w.choice([0, 0, 1, 1, 2])):
        refs = [gen.pick(w, [d for d in docs if "detection" in d and "title" in d])["name"] for _ in range(w.randint(1, 2))]
        c = gen.gen_correlation(w, f"C{i}", sorted(set(refs)), rid=gen.UUIDS[7 + i], name=f"corr_{i}",
                                generate=gen.chance(w, 0.5))
        if gen.chance(w, 0.4):
            c["correlation"]["condition"] = {"gte": 2, "zeta": 1, "alpha": 2, "mid": 3, "omega": 4, "beta": 5}
            kinds.add("malformed_correlation_condition")
        elif c["correlation"]["type"] == "value_percentile" and gen.chance(w, 0.6):
            c["correlation"]["condition"].pop("percentile", None)  # the conversion of this correlation rule fails
            kinds.add("correlation_rule_fails_in_conversion")
        docs.append(c)
        kinds.add("correlation")
    pipeline = None
    if gen.chance(w, 0.85):
        pipeline = gen.gen_pipeline(w, tag="p", n_items=(2, 6), post=0.5, final=0.3)
        for t in pipeline["transformations"]:
            if t["type"] == "add_condition":
                kinds.add("add_condition")
            if t["type"] == "nest":
                kinds.add("nested_pipeline")
            if t["type"] == "field_name_mapping" and any(isinstance(v, list) for v in t["mapping"].values()):
                kinds.add("one_to_many_mapping")
        if gen.chance(w, 0.4):
            pipeline["transformations"].append({"type": "add_condition", "conditions": {"src": "added"}})
            kinds.add("add_condition")
        if gen.chance(w, 0.35):
            pipeline["transformations"].append(
                {"type": "field_name_mapping", "mapping": {"User": ["u.one", "u.two", "u.three"], "Image": ["i.a", "i.b"]}})
            kinds.add("one_to_many_mapping")
            if gen.chance(w, 0.6):  # the mapped fields also occur as *referenced* fields
                victim = gen.pick(w, [d for d in docs if "detection" in d and "title" in d])
                victim["detection"]["refs"] = {"EventID|fieldref": "User", "a.b|fieldref": "Image"}
                first = next(k for k in victim["detection"] if k not in ("condition", "refs"))
                victim["detection"]["condition"] = f"{first} or refs"
                kinds.add("fieldref_to_one_to_many_mapped_field")
        if gen.chance(w, 0.25):
            pipeline["transformations"].append(
                {"type": "nest", "items": [
                    {"type": "field_name_mapping", "mapping": {"CommandLine": ["c.one", "c.two"]}},
                    {"type": "field_name_prefix", "prefix": "n."}]})
            kinds.add("nested_pipeline")
        if gen.chance(f, 0.12):
            pipeline["transformations"].append(
                {"type": "set_state", "key": "k", "val": "v", "rule_cond_expr": "a and b",
                 "rule_conditions": {"a": {"type": "is_sigma_rule"}, "b": {"type": "is_sigma_rule"},
                                     "c_extra": {"type": "is_sigma_rule"}, "d_extra": {"type": "is_sigma_rule"},
                                     "e_extra": {"type": "is_sigma_rule"}}})
            kinds.add("condition_expression_with_unreferenced_items")
    # adversarial forced draws: collide with a detection name a rule already has
    collide = gen.chance(f, 0.15)
    if collide:
        draw = "qqqqqqqqqq"
        victim = gen.pick(w, [d for d in docs if "detection" in d and "title" in d])
        if "filter" in kinds:
            fl = next(d for d in docs if "filter" in d)
            fname = next(k for k in fl["filter"] if k not in ("rules", "condition"))
            victim["detection"][f"_filt_{draw}_{fname}"] = {"Collide": "x"}
            first = next(k for k in victim["detection"] if k != "condition")
            victim["detection"]["condition"] = f"{first} or _filt_{draw}_{fname}"
        elif "add_condition" in kinds:
            victim["detection"][f"_cond_{draw}"] = {"Collide": "x"}
            first = next(k for k in victim["detection"] if k != "condition")
            victim["detection"]["condition"] = f"{first} or _cond_{draw}"
        kinds.add("forced_prefix_collision")
        forced = [draw] * 12
    fmt_force = None
    if gen.chance(w, 0.12):
        # a regular expression with several flags under a modifier that rejects regular expressions: the
        # load error names the value
        docs.append({"title": "Rbadchain", "logsource": {"product": "windows"},
                     "detection": {"sel": {"Image|re|i|m|s|" + gen.pick(w, ["base64", "contains", "windash"]): "a.*b"},
                                   "condition": "sel"}})
        kinds.add("regex_with_flags_under_incompatible_modifier")
    if pipeline is not None and gen.chance(w, 0.15):
        # several fields mapped to one name that is mapped on twice more: the tracking table of the pipeline
        # (shown by the 'st' output format) has to follow both source fields through the chain
        rules_only = [d for d in docs if "detection" in d and "title" in d and d["title"] != "Rbadchain"]
        victim = gen.pick(w, rules_only)
        victim["detection"]["both"] = {"User": "a", "Image": "b", "CommandLine": "c", "ParentImage": "d"}
        first = next(k for k in victim["detection"] if k not in ("condition", "both"))
        victim["detection"]["condition"] = f"{first} or both"
        # (in front of the other items, so that the chain sees the rule's own field names)
        pipeline["transformations"][0:0] = [
            {"type": "field_name_mapping", "mapping": {"User": "m.x", "Image": "m.x", "CommandLine": "m.x", "ParentImage": "m.x"}},
            {"type": "field_name_mapping", "mapping": {"m.x": "m.y"}},
            {"type": "field_name_mapping", "mapping": {"m.y": "m.z"}}]
        fmt_force = "st"
        kinds.add("mapping_chain_from_two_source_fields")
    if pipeline is not None and gen.chance(w, 0.15):
        # a Hashes field split up by the hashes_fields transformation: one rule with hashes of allowed
        # algorithms, one with an algorithm that is not allowed (the error lists the allowed ones)
        rules_only = [d for d in docs if "detection" in d and "title" in d and d["title"] != "Rbadchain"]
        good, bad = gen.pick(w, rules_only), gen.pick(w, rules_only)
        bad["detection"]["hsel"] = {"Hashes|contains": ["IMPHASH=0123456789ABCDEF0123456789ABCDEF"]}
        if good is not bad:
            good["detection"]["hsel"] = {"Hashes|contains": ["MD5=0123456789abcdef0123456789abcdef",
                                                             "SHA1=0123456789abcdef0123456789abcdef01234567"]}
        for d in {id(good): good, id(bad): bad}.values():
            first = next(k for k in d["detection"] if k not in ("condition", "hsel"))
            d["detection"]["condition"] = f"{first} or hsel"
        pipeline["transformations"].append({"type": "hashes_fields", "field_prefix": "File",
                                            "valid_hash_algos": ["MD5", "SHA1", "SHA256", "SHA512"]})
        kinds.add("hashes_field_with_unknown_algorithm")
    if gen.chance(w, 0.12):
        # several misspelled modifiers in one key: the load error names one of them
        docs.append({"title": "Rbadmods", "logsource": {"product": "windows"},
                     "detection": {"sel": {"CommandLine|contain|al|windashes|bas64": "x"}, "condition": "sel"}})
        kinds.add("several_unknown_modifiers_in_one_key")
    pipeline2 = None
    if pipeline is not None and gen.chance(w, 0.15):
        # a second pipeline added to the first one ('+'): both define the same list variable, a rule expands it
        pipeline.setdefault("vars", {})["admins"] = ["root", "adm*", "beta", "gamma"]
        pipeline2 = {"name": "second", "priority": 0, "vars": {"admins": ["zeta", "alpha", "mid", "omega", "delta"]},
                     "transformations": [{"type": "value_placeholders", "include": ["admins"]}]}
        rules_only = [d for d in docs if "detection" in d and "title" in d and not d["title"].startswith("Rbad")]
        victim = gen.pick(w, rules_only)
        victim["detection"]["phadm"] = {"User|expand": "%admins%"}
        first = next(k for k in victim["detection"] if k not in ("condition", "phadm"))
        victim["detection"]["condition"] = f"{first} or phadm"
        kinds.add("list_variable_defined_by_two_added_pipelines")
    n_filters = sum(1 for d in docs if "filter" in d)
    if not forced and n_filters >= 2 and gen.chance(f, 0.6):
        forced = ["zzzzzzzzzz"] * 12  # every filter application draws the same prefix first
        kinds.add("forced_equal_draws_for_two_filters")
    m = s.randint(4, 6)
    hashseeds = [0, 1] + [s.randrange(2, 2**32 - 1) for _ in range(m - 2)]
    configs = []
    for j in range(m):
        c: dict[str, Any] = {"hashseed": hashseeds[j], "random_seed": s.randrange(1 << 30), "heap_seed": s.randrange(1 << 30)}
        if forced and j % 2 == 1:
            c["forced_draws"] = list(forced)
        configs.append(c)
    return {"cls": gen.pick(s, ["SimBackend", "SimBackendNE", "SimBackendIn"]),
            "format": fmt_force or gen.pick(s, ["default", "default", "alt", "st"]),
            "validate": gen.chance(s, 0.3), "documents": docs, "pipeline": pipeline, "pipeline2": pipeline2,
            # a correlation method the backend does not know (every correlation rule fails with a conversion error)
            "correlation_method": "no_such_method" if ("correlation" in kinds and gen.chance(s, 0.12)) else None,
            "configs": configs, "kinds": sorted(kinds)}


# ------------------------------------------------------------------------------------------------

_SETARCH: list[str] | None = None


def _setarch_prefix() -> list[str]:
    global _SETARCH
    if _SETARCH is None:
        try:
            p = subprocess.run(["setarch", "x86_64", "-R", "true"], capture_output=True, timeout=10)
            _SETARCH = ["setarch", "x86_64", "-R"] if p.returncode == 0 else []
        except Exception:
            _SETARCH = []
    return _SETARCH


def _start(scpath: str, cfg: dict) -> dict:
    env = {k: v for k, v in os.environ.items() if not k.startswith("PYTHONHASHSEED")}
    env["PYTHONHASHSEED"] = str(cfg["hashseed"])
    cmd = _setarch_prefix() + [sys.executable, DRIVER, scpath, json.dumps(cfg)]
    p = subprocess.run(cmd, capture_output=True, text=True, env=env, timeout=60)
    if p.returncode != 0 or not p.stdout:
        raise core.HarnessError(f"driver failed rc={p.returncode}: {p.stderr[-1500:]}")
    return json.loads(p.stdout)


def _outputs_text(out: dict) -> list[str]:
    """queries and finalised output (not error messages)"""
    c = out.get("convert") or {}
    ok = c.get("ok")
    if ok is None:
        return []
    return [ok] if isinstance(ok, str) else [x if isinstance(x, str) else json.dumps(x) for x in ok]


def execute(scenario: dict) -> dict:
    from sigsim import world

    sc = scenario
    scratch = world.scratch_dir()
    try:
        scpath = os.path.join(scratch, "scenario.json")
        with open(scpath, "w") as fh:
            json.dump({k: sc.get(k) for k in ("cls", "format", "validate", "documents", "pipeline", "pipeline2", "correlation_method")}, fh)
        outs = [_start(scpath, cfg) for cfg in sc["configs"]]
    finally:
        shutil.rmtree(scratch, ignore_errors=True)
    faults: dict[str, int] = {}
    probes: dict[str, int] = {}
    for cfg in sc["configs"]:
        core.merge_counts(faults, {"process_start": 1})
        core.merge_counts(faults, {"hashseed:" + ("0" if cfg["hashseed"] == 0 else "1" if cfg["hashseed"] == 1 else "random32"): 1})
        if cfg.get("forced_draws"):
            core.merge_counts(faults, {"random:forced_draws": 1})
        else:
            core.merge_counts(faults, {"random:seeded": 1})
    core.merge_counts(faults, {"aslr_disabled" if _setarch_prefix() else "heap_layout_uncontrolled": 1})
    for k in sc.get("kinds", []):
        probes["construct:" + k] = 1
    violation = None
    for o in outs:  # validation issues name detections: mask the random part of filter/condition names
        if isinstance(o.get("issues"), list):
            o["issues"] = sorted(_RANDOM_ID.sub("_RANDOM", x) for x in o["issues"])
    ref = outs[0]
    for j, o in enumerate(outs[1:], 1):
        if o != ref:
            keys = [k for k in sorted(ref) if ref.get(k) != o.get(k)]
            violation = {"oracle": "all-process-starts-agree", "kind": "differs:" + ",".join(keys),
                         "configs": [sc["configs"][0], sc["configs"][j]],
                         "got": {k: o.get(k) for k in keys}, "want": {k: ref.get(k) for k in keys}}
            break
    if violation is None:
        for j, o in enumerate(outs):
            for text in _outputs_text(o):
                m = _RANDOM_ID.search(text)
                forced_hit = next((d for d in (sc["configs"][j].get("forced_draws") or []) if d in text), None)
                if m or forced_hit:
                    violation = {"oracle": "no-internal-identifier-in-output", "kind": "random-identifier-in-query",
                                 "configs": [sc["configs"][j]], "got": text[:600], "want": "no _cond_/_filt_ identifier"}
                    break
                if _ADDR.search(text):
                    violation = {"oracle": "no-address-in-output", "kind": "object-address-in-query",
                                 "configs": [sc["configs"][j]], "got": text[:600], "want": "no 0x... address"}
                    break
            if violation:
                break
    oc = []
    c = ref.get("convert") or {}
    oc.append("ok" if "ok" in c else "exc:" + str(c.get("exc")))
    oc.append("errors:%d" % len(ref.get("errors", [])))
    oc.append("loaderr:%d" % len(ref.get("load_errors", [])))
    oc.append("pipeerr" if ref.get("pipeline_error") else "pipeok")
    if ref.get("errors"):
        probes["error_records_compared"] = 1
    if ref.get("load_errors"):
        probes["load_errors_compared"] = 1
    if ref.get("pipeline_error"):
        probes["pipeline_build_error_compared"] = 1
    sig = core.digest([sc.get("kinds"), oc, sc["cls"], len(sc["configs"])])
    hs = {cfg["hashseed"] for cfg in sc["configs"]}
    return {"violation": violation, "log": {"first": ref}, "faults": faults, "probes": probes,
            "steps": len(sc["configs"]), "signature": sig,
            "nontrivial": bool(sc.get("kinds")) and len(hs) >= 3}


# ------------------------------------------------------------------------------------------------


def shrink(sc: dict) -> Iterable[dict]:
    # two disagreeing configurations are enough
    if len(sc["configs"]) > 2:
        for i in range(1, len(sc["configs"])):
            c = copy.deepcopy(sc)
            c["configs"] = [c["configs"][0], c["configs"][i]]
            yield c
        for i in range(len(sc["configs"])):
            c = copy.deepcopy(sc)
            c["configs"] = [c["configs"][i]]
            yield c
    # make the configurations differ in one coordinate only
    if len(sc["configs"]) == 2:
        a, b = sc["configs"]
        for k in ("hashseed", "random_seed", "heap_seed", "forced_draws"):
            if a.get(k) != b.get(k):
                c = copy.deepcopy(sc)
                if k in a:
                    c["configs"][1][k] = a[k]
                else:
                    c["configs"][1].pop(k, None)
                yield c
    docs = sc["documents"]
    for i in reversed(range(len(docs))):
        c = copy.deepcopy(sc)
        del c["documents"][i]
        if c["documents"]:
            yield c
    if sc.get("pipeline2") is not None:
        c = copy.deepcopy(sc)
        c["pipeline2"] = None
        yield c
    if sc.get("pipeline") is not None:
        c = copy.deepcopy(sc)
        c["pipeline"] = None
        yield c
        for part in ("transformations", "postprocessing", "finalizers"):
            for j in reversed(range(len(sc["pipeline"].get(part, [])))):
                c = copy.deepcopy(sc)
                del c["pipeline"][part][j]
                yield c
        if "vars" in sc["pipeline"]:
            c = copy.deepcopy(sc)
            del c["pipeline"]["vars"]
            yield c
        for j, it in enumerate(sc["pipeline"].get("transformations", [])):
            for k in ("rule_conditions", "field_name_conditions", "detection_item_conditions", "rule_cond_op",
                      "rule_cond_not", "id"):
                if k in it and "rule_cond_expr" not in it:
                    c = copy.deepcopy(sc)
                    del c["pipeline"]["transformations"][j][k]
                    yield c
    if sc.get("validate"):
        c = copy.deepcopy(sc)
        c["validate"] = False
        yield c
    if sc["format"] != "default":
        c = copy.deepcopy(sc)
        c["format"] = "default"
        yield c
    for i, doc in enumerate(docs):
        for k in ("status", "level", "tags", "date", "description", "custom_x", "fields"):
            if k in doc:
                c = copy.deepcopy(sc)
                del c["documents"][i][k]
                yield c
        det = doc.get("detection")
        if not det:
            continue
        names = [k for k in det if k != "condition"]
        for nm in names:
            if len(names) > 1:
                c = copy.deepcopy(sc)
                del c["documents"][i]["detection"][nm]
                c["documents"][i]["detection"]["condition"] = [x for x in names if x != nm][0]
                yield c
            v = det[nm]
            if isinstance(v, dict) and len(v) > 1:
                for k in list(v):
                    c = copy.deepcopy(sc)
                    del c["documents"][i]["detection"][nm][k]
                    yield c
        if isinstance(det.get("condition"), list):
            c = copy.deepcopy(sc)
            c["documents"][i]["detection"]["condition"] = det["condition"][0]
            yield c


_AUTOID = re.compile(r"'[0-9a-f]{16}'")
_FLATSET = re.compile(r"\{([^{}]*, [^{}]*)\}")  # any brace group without nesting: set (or dict) reprs
PRETAG = True  # one evaluation costs several interpreter starts: classify before minimising


def _mask(x: Any) -> Any:
    if isinstance(x, str):
        x = _RANDOM_ID.sub("_RANDOM", x)
        x = _AUTOID.sub("'AUTOID'", x)
        x = _ADDR.sub("0xADDR", x)
        x = re.sub(r"memory:[0-9a-f]+", "memory:ADDR", x)
        return _FLATSET.sub(lambda m: "{" + ", ".join(sorted(m.group(1).split(", "))) + "}", x)
    if isinstance(x, list):
        return [_mask(y) for y in x]
    if isinstance(x, dict):
        return {k: _mask(v) for k, v in x.items()}
    return x


_REPR_MARKERS = ("SigmaRule(", "SigmaCorrelationRule(", "ProcessingItem(", "Transformation(", "Condition(",
                 "ProcessingPipeline(", "SigmaDetections(", "SigmaDetectionItem(")


def _diffs_inside_reprs(a: Any, b: Any) -> bool:
    """every differing string leaf differs only after the start of an embedded dataclass repr"""
    if isinstance(a, str) and isinstance(b, str):
        if a == b:
            return True
        i = next((k for k, (x, y) in enumerate(zip(a, b)) if x != y), min(len(a), len(b)))
        return any(0 <= a.find(m) < i for m in _REPR_MARKERS)
    if isinstance(a, list) and isinstance(b, list) and len(a) == len(b):
        return all(_diffs_inside_reprs(x, y) for x, y in zip(a, b))
    if isinstance(a, dict) and isinstance(b, dict) and set(a) == set(b):
        return all(_diffs_inside_reprs(a[k], b[k]) for k in a)
    return a == b


def _undefined_in_filter(doc: dict) -> bool:
    fl = doc["filter"]
    names = {k for k in fl if k not in ("rules", "condition")}
    toks = re.findall(r"[A-Za-z0-9_*-]+", str(fl.get("condition", "")))
    return any(t not in names and t not in ("not", "and", "or", "1", "all", "any", "of", "them") and "*" not in t
               for t in toks)


def tags(sc: dict, violation: dict) -> set[str]:
    t: set[str] = set()
    if violation.get("oracle") == "all-process-starts-agree":
        got, want = violation.get("got") or {}, violation.get("want") or {}
        only_messages = True
        for k in set(got) | set(want):
            g, w = got.get(k), want.get(k)
            if k == "convert" and (isinstance(g, dict) and "ok" in g or isinstance(w, dict) and "ok" in w):
                only_messages = False  # queries / finalised output differ: never quarantined
            if k == "issues":
                only_messages = False
        if only_messages and _mask(got) == _mask(want) and _diffs_inside_reprs(got, want):
            t.add("error-message-embeds-object-repr")
        broken = any("filter" in d and _undefined_in_filter(d) for d in sc.get("documents", []))
        if only_messages and broken and _mask(got) == _mask(want) and "not defined in detections" in json.dumps(got):
            t.add("filter-condition-names-undefined-detection")
    if "forced_prefix_collision" in sc.get("kinds", []) and any(c.get("forced_draws") for c in violation.get("configs", [])):
        names = [k for d in sc["documents"] if "detection" in d for k in d["detection"]]
        if any(n.startswith("_filt_qqqqqqqqqq") or n.startswith("_cond_qqqqqqqqqq") for n in names):
            t.add("forced-prefix-collision")
    return t

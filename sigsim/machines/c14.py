"""
C14 - pipelines compose in a defined order: priority, then stage, then position.

History machine over pipeline objects that hand over ownership of their parts on every '+'.
Two oracles per Check: (A) an executable reference model that predicts the complete output string
from the specs alone (order of pipelines, stage order, variable overriding), (B) the conversion
through ONE pipeline freshly built from the model's concatenated YAML, in a fresh world.
"""

from __future__ import annotations

import copy
import os
import shutil
from random import Random
from typing import Any, Iterable

from sigsim import core, gen

PROPERTY = "C14"
QUICK_RUNS = 4000
RUN_TIMEOUT = 40.0
RULE = (
    "seeded generator: 1-5 pipeline specs with priorities (ties included), names, overlapping vars and "
    "order-revealing content (non-commutative field prefixes, set_state to one key, embed wrappers, template "
    "finalizer wrappers, optional log-source conditions; in 'rich' scenarios additional random "
    "transformations); history of <=10 ops {Add in any bracketing incl. empty / None / sum(), Resolve by "
    "names / files / directory in any argument order and enumeration order, repeated Resolve of the same "
    "objects, UseInBackend, Check}; Check converts two rules through a SimBackend with its own backend and "
    "output-format pipelines. non-trivial = >=2 non-empty pipelines and (priority tie or permuted resolver "
    "list or re-used operand or repeated resolve); distinct = distinct (op-kind sequence with model values, "
    "priorities pattern, rich flag)"
)
REAL = ["sigma.* (all)", "PyYAML", "jinja2", "real pipeline files in a scratch directory"]
STUB = ["directory enumeration order (pathlib.Path.glob wrapped)"]
ASSUMPTIONS = [
    "resolver order key is (priority, specifier string) - a registered name or a file path - as the code "
    "and the statement ('priority, name') say; equal keys do not occur (a specifier is named once per resolve)",
    "oracle A is applied only to scenarios whose specs consist of the order-revealing item kinds",
    "a pipeline object is never added to itself",
]

TITLES = [("R0", "windows"), ("R1", "linux")]


# ------------------------------------------------------------------------------------------------
# generation


def _spec(w: Random, i: int, rich: bool) -> dict:
    tag = f"p{i}"
    spec: dict[str, Any] = {"name": f"pl{i}", "priority": w.choice([0, 10, 10, 20, 20, 50, -5, -10, 1000])}
    v: dict[str, Any] = {f"k{i}": tag}
    if gen.chance(w, 0.6):
        v["v"] = tag
    spec["vars"] = v
    tr: list[dict] = []
    if gen.chance(w, 0.8):
        t: dict[str, Any] = {"type": "field_name_prefix", "prefix": tag + "."}
        if gen.chance(w, 0.3):
            t["rule_conditions"] = [{"type": "logsource", "product": w.choice(["windows", "linux"])}]
        tr.append(t)
    if gen.chance(w, 0.6):
        t = {"type": "set_state", "key": "index", "val": tag}
        if gen.chance(w, 0.3):
            t["rule_conditions"] = [{"type": "logsource", "product": w.choice(["windows", "linux"])}]
        tr.append(t)
    if rich:
        for j in range(w.randint(1, 2)):
            tr.insert(w.randint(0, len(tr)), gen.gen_transformation(
                w, w.choice(["field_name_mapping", "field_name_suffix", "replace_string", "add_condition",
                             "add_field", "set_field", "case", "map_string", "field_name_mapping_1n"]), 10 + j, 0, tag))
    spec["transformations"] = tr
    pp: list[dict] = []
    if gen.chance(w, 0.6):
        t = {"type": "embed", "prefix": f"[{tag} ", "suffix": f" {tag}]"}
        if gen.chance(w, 0.25):
            t["rule_conditions"] = [{"type": "logsource", "product": w.choice(["windows", "linux"])}]
        pp.append(t)
    if pp:
        spec["postprocessing"] = pp
    if gen.chance(w, 0.4):
        ftag = "same" if gen.chance(w, 0.3) else tag  # several pipelines may carry an *equal* finalizer
        spec["finalizers"] = [{"type": "template", "template": "<" + ftag + " {{ queries }} " + ftag + ">"}]
    return spec


def _expr(s: Random, leaves: list[str]) -> Any:
    """random bracketing of a + over the given leaves (in order), with identity decorations"""
    if len(leaves) == 1:
        e: Any = leaves[0]
    else:
        k = s.randint(1, len(leaves) - 1)
        e = ["+", _expr(s, leaves[:k]), _expr(s, leaves[k:])]
    r = s.random()
    if r < 0.08:
        e = ["+", e, "EMPTY"]
    elif r < 0.16:
        e = ["+", "EMPTY", e]
    elif r < 0.22:
        e = ["+", e, "NONE"]
    return e


def generate(streams: core.Streams, tier: str) -> dict:
    w, s = streams["workload"], streams["schedule"]
    rich = gen.chance(w, 0.35)
    n = w.randint(1, 5)
    specs = [_spec(w, i, rich) for i in range(n)]
    # placeholder variant (drawn after the specs): the rules' value is a placeholder that every user pipeline
    # can resolve from the variables - which are those of the *composed* pipeline, later ones overriding
    ph = (not rich) and gen.chance(w, 0.3)
    phlist = ph and gen.chance(w, 0.5)
    if ph:
        for i, sp in enumerate(specs):
            sp["vars"].setdefault("v", f"p{i}")
            if phlist:  # list valued: a later pipeline's list replaces an earlier one's, it is not merged with it
                sp["vars"]["v"] = [f"p{i}a", f"p{i}b"]
            sp["transformations"].insert(0, {"type": "value_placeholders", "include": ["v"]})
    # rules with two conditions: two queries per rule, each post-processed on its own
    multi = (not rich) and gen.chance(w, 0.25)
    # post-processing items with explicit identifiers
    for sp in specs:
        for t in sp.get("postprocessing", []):
            if gen.chance(w, 0.5):
                t["id"] = "pp" + sp["name"]
    backend_pipeline = {"vars": {"v": "B", "kB": "B"},
                        "transformations": [{"type": "field_name_prefix", "prefix": "B."},
                                            {"type": "set_state", "key": "index", "val": "B"}],
                        "postprocessing": [{"type": "template", "template": "{{ query }} ~V={{ pipeline.vars['v'] }}"}]}
    format_pipeline = {"vars": {"kF": "F"}, "transformations": [{"type": "field_name_prefix", "prefix": "F."}],
                       "postprocessing": [{"type": "embed", "prefix": "[F ", "suffix": " F]"}]}
    if gen.chance(w, 0.3):
        format_pipeline["vars"]["v"] = "F"
    if gen.chance(w, 0.3):
        format_pipeline["finalizers"] = [{"type": "template", "template": "<F {{ queries }} F>"}]
    # some backends register a pipeline for their *default* format too
    default_format_pipeline = None
    if gen.chance(w, 0.35):
        default_format_pipeline = {"vars": {"kD": "D"}, "transformations": [{"type": "field_name_prefix", "prefix": "D."}],
                                   "postprocessing": [{"type": "embed", "prefix": "[D ", "suffix": " D]"}]}
        if gen.chance(w, 0.4):
            default_format_pipeline["vars"]["v"] = "D"
    ops: list[dict] = []
    regs: list[str] = []  # names of registers holding composed pipelines
    reg_model: dict[str, list[int]] = {}
    names = [f"p{i}" for i in range(n)]
    n_ops = s.randint(1, 6)
    for _ in range(n_ops):
        r = s.random()
        if r < 0.40:
            k = s.randint(1, n)
            leaves = s.sample(names, k)
            # operands may also be earlier results (re-used composites), never twice the same object
            if regs and gen.chance(s, 0.25):
                rg = gen.pick(s, regs)
                # the same item object must not end up twice in one pipeline: keep only leaves that
                # are disjoint from what the re-used composite already contains
                inside = set(reg_model[rg])
                leaves = [x for x in leaves if int(x[1:]) not in inside]
                leaves.insert(s.randint(0, len(leaves)), rg)
            reg = f"r{len(regs)}"
            form = "sum" if gen.chance(s, 0.15) else "expr"
            ops.append({"op": "Add", "dst": reg, "expr": _expr(s, leaves) if form == "expr" else ["sum"] + leaves})
            reg_model[reg] = [i for x in leaves for i in (reg_model[x] if x in reg_model else [int(x[1:])])]
            regs.append(reg)
        elif r < 0.75:
            k = s.randint(1, n)
            chosen = s.sample(names, k)
            via = gen.pick(s, ["names", "names", "files", "dir", "mixed", "dir_mixed", "dir_mixed"])
            reg = f"r{len(regs)}"
            ops.append({"op": "Resolve", "dst": reg, "specs": chosen, "via": via,
                        "glob_order": s.sample(range(k), k)})
            reg_model[reg] = [int(x[1:]) for x in chosen]
            regs.append(reg)
        elif r < 0.84 and (regs or names):
            ops.append({"op": "UseInBackend", "src": gen.pick(s, regs + names),
                        "format": gen.pick(s, ["default", "alt", None, "doc"])})
        elif r < 0.92 and (regs or names):
            # one long-lived backend object: its user pipeline is replaced, then it converts again
            ops.append({"op": "CheckLongLived", "src": gen.pick(s, regs + names),
                        "format": gen.pick(s, ["default", "alt", None, "doc"])})
        else:
            if regs or names:
                ops.append({"op": gen.pick(s, ["Check", "CheckDirect"]),
                            "src": gen.pick(s, regs + names if gen.chance(s, 0.3) else (regs or names)),
                            "format": gen.pick(s, ["default", "alt", None, "doc"])})
    target = regs[-1] if regs else names[0]
    ops.append({"op": gen.pick(s, ["Check", "Check", "CheckDirect"]), "src": target, "format": gen.pick(s, ["default", "alt", None, "doc"])})
    if regs and gen.chance(s, 0.6):
        # an older composite or an operand, after later compositions took over (some of) its items
        ops.append({"op": gen.pick(s, ["Check", "CheckDirect", "CheckDirect"]), "src": gen.pick(s, regs + names),
                    "format": gen.pick(s, ["default", "alt", None, "doc"])})
    return {"rich": rich, "ph": ph, "multi": multi, "specs": specs, "backend_pipeline": backend_pipeline,
            "format_pipeline": format_pipeline, "default_format_pipeline": default_format_pipeline, "ops": ops}


# ------------------------------------------------------------------------------------------------
# reference model: a pipeline is a list of spec indices


def _flatten_add(expr: Any, env: dict[str, list[int]]) -> list[int]:
    if isinstance(expr, str):
        if expr in ("EMPTY", "NONE"):
            return []
        return list(env[expr])
    if expr[0] == "+":
        return _flatten_add(expr[1], env) + _flatten_add(expr[2], env)
    if expr[0] == "sum":
        out: list[int] = []
        for leaf in expr[1:]:
            out += env[leaf]
        return out
    raise core.HarnessError("bad expr")


def _leaves(expr: Any) -> list[str]:
    if isinstance(expr, str):
        return [] if expr in ("EMPTY", "NONE") else [expr]
    out: list[str] = []
    for e in expr[1:]:
        out += _leaves(e)
    return out


def s_pos(op: dict, n: int) -> int:
    """position of the directory specifier among the named specifiers (decided by the scenario)"""
    return (op["glob_order"][0] if op.get("glob_order") else 0) % (n + 1)


def _spec_path(sc: dict, i: int, via: str, pos: int, scratch: str) -> str:
    """specifier string handed to / discovered by the resolver for spec i"""
    if via == "names" or (via in ("mixed", "dir_mixed") and pos % 2 == 0):
        return sc["specs"][i]["name"]
    sub = "d" if via in ("dir", "dir_mixed") else "f"
    # file names deliberately do not sort like the names
    return os.path.join(scratch, sub, f"{'zyxwv'[i]}_{i}.yml")


def model_values(sc: dict, scratch: str = "/SCRATCH") -> dict[str, list[int]]:
    env: dict[str, list[int]] = {f"p{i}": [i] for i in range(len(sc["specs"]))}
    for op in sc["ops"]:
        if op["op"] == "Add":
            env[op["dst"]] = _flatten_add(op["expr"], env)
        elif op["op"] == "Resolve":
            keyed = []
            for pos, name in enumerate(op["specs"]):
                i = int(name[1:])
                keyed.append((sc["specs"][i].get("priority", 0), _spec_path(sc, i, op["via"], pos, scratch), i))
            env[op["dst"]] = [i for _, _, i in sorted(keyed)]
    return env


def concatenated_spec(sc: dict, idx: list[int]) -> dict:
    out: dict[str, Any] = {"transformations": [], "postprocessing": [], "finalizers": [], "vars": {}}
    for i in idx:
        sp = sc["specs"][i]
        out["transformations"] += copy.deepcopy(sp.get("transformations", []))
        out["postprocessing"] += copy.deepcopy(sp.get("postprocessing", []))
        out["finalizers"] += copy.deepcopy(sp.get("finalizers", []))
        out["vars"].update(copy.deepcopy(sp.get("vars", {})))
    return out


def _applies(item: dict, product: str) -> bool:
    for c in item.get("rule_conditions", []):
        if c["type"] == "logsource" and c.get("product") != product:
            return False
    return True


def _user_expr(sc: dict, merged: dict, prefix: str) -> str:
    """the rule's only detection item as SimBackend renders it (a list value is an OR of the values)"""
    if not sc.get("ph"):
        return f'{prefix}User="x"'
    v = merged.get("v")
    vals = v if isinstance(v, list) else [v]
    return " OR ".join(f'{prefix}User="{x}"' for x in vals)


def predict(sc: dict, idx: list[int], fmt: str) -> Any:
    """Oracle A: the complete conversion output predicted from the specs alone."""
    chain = [sc["backend_pipeline"]] + [sc["specs"][i] for i in idx] + ([sc["format_pipeline"]] if fmt == "alt" else [])
    if fmt in ("default", None) and sc.get("default_format_pipeline"):
        chain.append(sc["default_format_pipeline"])  # also when the format is implicit (None)
    merged: dict[str, Any] = {}
    for p in chain:
        merged.update(p.get("vars", {}))
    queries = []
    for title, product in TITLES:
        prefix, index = "", "default"
        for p in chain:
            for t in p.get("transformations", []):
                if not _applies(t, product):
                    continue
                if t["type"] == "field_name_prefix":
                    prefix = t["prefix"] + prefix
                elif t["type"] == "set_state":
                    index = t["val"]
        for qi in range(2 if sc.get("multi") else 1):
            q = f'<{title}> {_user_expr(sc, merged, prefix)} | idx={index} | fields=[]'
            if fmt == "alt":
                q = f"ALT#{qi}[{q}]"
            for p in chain:
                for t in p.get("postprocessing", []):
                    if not _applies(t, product):
                        continue
                    if t["type"] == "embed":
                        q = t["prefix"] + q + t["suffix"]
                    elif t["type"] == "template":
                        q = q + " ~V=" + str(merged.get("v", ""))
            queries.append(q)
    out: Any = queries
    if fmt == "doc":
        out = " ## ".join(queries)  # the format renders one document; the finalizers get that
    for p in chain:
        for f in p.get("finalizers", []):
            tag = f["template"].split(" ")[0][1:]
            out = f"<{tag} {out} {tag}>"
    return out


def predict_direct(sc: dict, idx: list[int]) -> Any:
    """Oracle A for direct use of a pipeline object (apply / postprocess_query / finalize without a backend
    pipeline around it)."""
    chain = [sc["specs"][i] for i in idx]
    merged: dict[str, Any] = {}
    for p in chain:
        merged.update(p.get("vars", {}))
    queries, states = [], []
    for title, product in TITLES:
        prefix, state = "", {}
        for p in chain:
            for t in p.get("transformations", []):
                if not _applies(t, product):
                    continue
                if t["type"] == "field_name_prefix":
                    prefix = t["prefix"] + prefix
                elif t["type"] == "set_state":
                    state[t["key"]] = t["val"]
        for _qi in range(2 if sc.get("multi") else 1):
            q = _user_expr(sc, merged, prefix)
            for p in chain:
                for t in p.get("postprocessing", []):
                    if _applies(t, product) and t["type"] == "embed":
                        q = t["prefix"] + q + t["suffix"]
            queries.append(q)
        states.append(state)
    out: Any = queries
    for p in chain:
        for f in p.get("finalizers", []):
            tag = f["template"].split(" ")[0][1:]
            out = f"<{tag} {out} {tag}>"
    return {"states": states, "final": out}


# ------------------------------------------------------------------------------------------------
# worlds


def _docs(ph: bool = False, multi: bool = False) -> list[dict]:
    item = {"User|expand": "%v%"} if ph else {"User": "x"}
    return [{"title": t, "logsource": {"product": p},
             "detection": {"sel": dict(item), "condition": ["sel", "sel"] if multi else "sel"}}
            for t, p in TITLES]


def _docs_rich() -> list[dict]:
    return [{"title": t, "logsource": {"product": p}, "fields": ["User", "Image"],
             "detection": {"sel": {"User": "adm", "Image|endswith": "\\cmd.exe"}, "flt": {"CommandLine|contains": ["foo", "x"]},
                           "condition": "sel and not flt"}} for t, p in TITLES]


def _configure_class(sc: dict) -> Any:
    from sigsim import simbackend, world

    cls = simbackend.SimBackend
    cls.backend_processing_pipeline = world.build_pipeline(sc["backend_pipeline"])
    cls.output_format_processing_pipeline["alt"] = world.build_pipeline(sc["format_pipeline"])
    if sc.get("default_format_pipeline"):
        cls.output_format_processing_pipeline["default"] = world.build_pipeline(sc["default_format_pipeline"])
    return cls


def _convert(sc: dict, cls: Any, pipeline: Any, fmt: str) -> dict:
    from sigsim import world

    b = cls(pipeline)
    return world.capture(lambda: b.convert(world.load_collection(_docs_rich() if sc["rich"] else _docs(bool(sc.get("ph")), bool(sc.get("multi")))), fmt))


def _direct(sc: dict, pipeline: Any) -> dict:
    """Use the pipeline object directly: apply, convert with a pipeline-free backend, post-process every
    query, finalize once."""
    from sigsim import simbackend, world

    def run() -> Any:
        coll = world.load_collection(_docs_rich() if sc["rich"] else _docs(bool(sc.get("ph")), bool(sc.get("multi"))))
        states, queries = [], []
        for rule in coll.rules:
            pipeline.apply(rule)
            states.append(dict(pipeline.state))
            for q in simbackend.SimBackendPlain().convert_rule(rule):
                queries.append(pipeline.postprocess_query(rule, q))
        return {"states": states, "final": pipeline.finalize(queries)}

    return world.capture(run)


def _fresh_single(args: tuple[dict, list[int], str, bool]) -> dict:
    from sigsim import world

    sc, idx, fmt, direct = args
    cls = _configure_class(sc)
    single = world.build_pipeline(concatenated_spec(sc, idx))
    return _direct(sc, single) if direct else _convert(sc, cls, single, fmt)


def execute(scenario: dict) -> dict:
    from sigsim import world
    from sigma.processing.pipeline import ProcessingPipeline
    from sigma.processing.resolver import ProcessingPipelineResolver

    sc = scenario
    scratch = world.scratch_dir()
    try:
        env_model = model_values(sc, scratch)
        # fresh-world references for every Check, before any operation is executed
        fresh: dict[int, dict] = {}
        for k, op in enumerate(sc["ops"]):
            if op["op"] in ("Check", "CheckDirect", "CheckLongLived"):
                st, res = core.run_in_fork(_fresh_single, (sc, env_model[op["src"]], op["format"],
                                                           op["op"] == "CheckDirect"), 15.0)
                if st != "ok":
                    raise core.HarnessError(f"fresh world failed: {st}: {res}")
                fresh[k] = res
        cls = _configure_class(sc)
        objs: dict[str, Any] = {f"p{i}": world.build_pipeline(sp) for i, sp in enumerate(sc["specs"])}
        used: dict[str, int] = {}
        faults: dict[str, int] = {}
        probes: dict[str, int] = {}
        log: list[Any] = []
        violation = None
        resolves_seen: dict[tuple, int] = {}
        sigparts = []

        def ev(expr: Any) -> Any:
            if isinstance(expr, str):
                if expr == "EMPTY":
                    return ProcessingPipeline()
                if expr == "NONE":
                    return None
                used[expr] = used.get(expr, 0) + 1
                return objs[expr]
            if expr[0] == "+":
                a, b = ev(expr[1]), ev(expr[2])
                if a is None:
                    return b  # None + x is not defined by the library; the generator never puts NONE left
                return a + b
            if expr[0] == "sum":
                for leaf in expr[1:]:
                    used[leaf] = used.get(leaf, 0) + 1
                return sum([objs[leaf] for leaf in expr[1:]])
            raise core.HarnessError("bad expr")

        for k, op in enumerate(sc["ops"]):
            kind = op["op"]
            if kind == "Add":
                objs[op["dst"]] = ev(op["expr"])
                core.merge_counts(faults, {"op:add": 1})
                sigparts.append(["A", len(env_model[op["dst"]])])
            elif kind == "Resolve":
                via = op["via"]
                specs = []
                files = []
                resolver = ProcessingPipelineResolver.from_pipeline_list(
                    [objs[f"p{i}"] for i in range(len(sc["specs"]))])
                for pos, name in enumerate(op["specs"]):
                    i = int(name[1:])
                    path = _spec_path(sc, i, via, pos, scratch)
                    if path == sc["specs"][i]["name"]:
                        specs.append(path)
                        used[name] = used.get(name, 0) + 1
                    else:
                        os.makedirs(os.path.dirname(path), exist_ok=True)
                        with open(path, "w") as fh:
                            fh.write(world.dump_yaml([sc["specs"][i]]))
                        files.append(path)
                        if via not in ("dir", "dir_mixed"):
                            specs.append(path)
                holder: dict[str, Any] = {}

                def do() -> str:
                    holder["o"] = resolver.resolve(specs)
                    return "resolved"

                if via in ("dir", "dir_mixed") and files:
                    specs.insert(s_pos(op, len(specs)), os.path.join(scratch, "d") + gen.pick(Random(len(files)), ["", "/", "/*"]))
                    order = [files[j] for j in op["glob_order"] if j < len(files)]
                    rank = {p: j for j, p in enumerate(order)}
                    with world.GlobOrder(lambda found: sorted(found, key=lambda x: rank.get(str(x), 99))) as g:
                        res = world.capture(do)
                        if g.calls:
                            core.merge_counts(faults, {"reordering:directory_enumeration_order_imposed": 1})
                elif via == "dir_mixed":
                    res = world.capture(do)  # no files in the directory this time
                else:
                    res = world.capture(do)
                objs[op["dst"]] = holder.get("o", RuntimeError(str(res)))
                for f in files:
                    os.unlink(f)
                key = (tuple(sorted(op["specs"])), via)
                resolves_seen[key] = resolves_seen.get(key, 0) + 1
                core.merge_counts(faults, {"op:resolve:" + via: 1})
                if op["specs"] != sorted(op["specs"], key=lambda nm: (sc["specs"][int(nm[1:])]["priority"], nm)):
                    core.merge_counts(faults, {"reordering:resolver_argument_list_permuted": 1})
                sigparts.append(["R", via, len(op["specs"])])
            elif kind == "UseInBackend":
                o = objs[op["src"]]
                if not isinstance(o, Exception):
                    _convert(sc, cls, o, op["format"])
                    core.merge_counts(faults, {"history:operand_used_by_a_backend": 1})
                sigparts.append(["U"])
            elif kind in ("Check", "CheckDirect", "CheckLongLived"):
                o = objs[op["src"]]
                idx = env_model[op["src"]]
                direct = kind == "CheckDirect"
                if isinstance(o, Exception):
                    got: dict = world.exc_record(o)
                elif kind == "CheckLongLived":
                    if "long" not in objs:
                        objs["long"] = cls(None)
                    lb = objs["long"]
                    lb.processing_pipeline = o
                    got = world.capture(lambda: lb.convert(world.load_collection(_docs_rich() if sc["rich"] else _docs(bool(sc.get("ph")), bool(sc.get("multi")))), op["format"]))
                    core.merge_counts(faults, {"history:long_lived_backend_gets_another_user_pipeline": 1})
                elif direct:
                    got = _direct(sc, o)
                    core.merge_counts(faults, {"op:direct_use_of_pipeline_object": 1})
                else:
                    got = _convert(sc, cls, o, op["format"])
                wantB = fresh[k]
                log.append({"op": k, "idx": idx, "got": got, "wantB": wantB})
                sigparts.append(["D" if direct else "C", idx, op["format"]])
                if got != wantB:
                    violation = {"oracle": "composed-object-equals-single-pipeline-from-concatenated-spec",
                                 "kind": "differs", "step": k, "model_order": idx, "got": got, "want": wantB}
                elif not sc["rich"]:
                    wantA = {"ok": predict_direct(sc, idx) if direct else predict(sc, idx, op["format"])}
                    if got != wantA:
                        violation = {"oracle": "output-equals-reference-model-prediction", "kind": "differs",
                                     "step": k, "model_order": idx, "got": got, "want": wantA}
                if violation:
                    break
        prios = [sp["priority"] for sp in sc["specs"]]
        if len(set(prios)) < len(prios):
            probes["priority_tie"] = 1
        if any(v > 1 for v in used.values()):
            probes["operand_reused"] = 1
        if any(v > 1 for v in resolves_seen.values()):
            probes["same_objects_resolved_again"] = 1
        nonempty = sum(1 for sp in sc["specs"] if sp.get("transformations") or sp.get("postprocessing") or sp.get("finalizers"))
        nontrivial = nonempty >= 2 and bool(
            probes.get("priority_tie") or probes.get("operand_reused") or probes.get("same_objects_resolved_again")
            or faults.get("reordering:resolver_argument_list_permuted"))
        sig = core.digest([sigparts, sorted(prios), sc["rich"]])
        return {"violation": violation, "log": log, "faults": faults, "probes": probes,
                "steps": len(sc["ops"]), "signature": sig, "nontrivial": nontrivial}
    finally:
        shutil.rmtree(scratch, ignore_errors=True)


# ------------------------------------------------------------------------------------------------


def _regs_used(ops: list[dict]) -> set[str]:
    u: set[str] = set()
    for o in ops:
        if o["op"] == "Add":
            u.update(_leaves(o["expr"]))
        elif o["op"] in ("UseInBackend", "Check", "CheckDirect", "CheckLongLived"):
            u.add(o["src"])
    return u


def shrink(sc: dict) -> Iterable[dict]:
    ops = sc["ops"]
    checks = [i for i, o in enumerate(ops) if o["op"] in ("Check", "CheckDirect", "CheckLongLived")]
    if len(checks) > 1:
        for keep in checks:
            c = copy.deepcopy(sc)
            c["ops"] = [o for i, o in enumerate(ops) if o["op"] not in ("Check", "CheckDirect", "CheckLongLived") or i == keep]
            yield c
    for i in reversed(range(len(ops))):
        o = ops[i]
        if o["op"] in ("Check", "CheckDirect", "CheckLongLived") and len(checks) == 1:
            continue
        if o["op"] in ("Add", "Resolve") and o["dst"] in _regs_used(ops[i + 1:]):
            continue
        c = copy.deepcopy(sc)
        del c["ops"][i]
        yield c
    # simplify expressions: remove decorations, drop a leaf
    for i, o in enumerate(ops):
        if o["op"] == "Add":
            lv = _leaves(o["expr"])
            if len(lv) > 1:
                for j in range(len(lv)):
                    c = copy.deepcopy(sc)
                    rest = lv[:j] + lv[j + 1:]
                    e: Any = rest[0]
                    for x in rest[1:]:
                        e = ["+", e, x]
                    c["ops"][i]["expr"] = e
                    yield c
            flat: Any = lv[0]
            for x in lv[1:]:
                flat = ["+", flat, x]
            if flat != o["expr"]:
                c = copy.deepcopy(sc)
                c["ops"][i]["expr"] = flat
                yield c
        if o["op"] == "Resolve":
            if len(o["specs"]) > 1:
                for j in range(len(o["specs"])):
                    c = copy.deepcopy(sc)
                    del c["ops"][i]["specs"][j]
                    c["ops"][i]["glob_order"] = list(range(len(c["ops"][i]["specs"])))
                    yield c
            if o["via"] != "names":
                c = copy.deepcopy(sc)
                c["ops"][i]["via"] = "names"
                yield c
        if o["op"] in ("Check", "CheckDirect", "CheckLongLived", "UseInBackend") and o["format"] != "default":
            c = copy.deepcopy(sc)
            c["ops"][i]["format"] = "default"
            yield c
    # spec content
    for i, sp in enumerate(sc["specs"]):
        for part in ("transformations", "postprocessing", "finalizers"):
            for j in reversed(range(len(sp.get(part, [])))):
                c = copy.deepcopy(sc)
                del c["specs"][i][part][j]
                yield c
        for j, t in enumerate(sp.get("transformations", [])):
            if "rule_conditions" in t:
                c = copy.deepcopy(sc)
                del c["specs"][i]["transformations"][j]["rule_conditions"]
                yield c
        if sp.get("priority"):
            c = copy.deepcopy(sc)
            c["specs"][i]["priority"] = 0
            yield c
    if sc.get("default_format_pipeline"):
        c = copy.deepcopy(sc)
        c["default_format_pipeline"] = None
        yield c
    if sc["format_pipeline"].get("finalizers"):
        c = copy.deepcopy(sc)
        del c["format_pipeline"]["finalizers"]
        yield c


def tags(sc: dict, violation: dict) -> set[str]:
    return set()

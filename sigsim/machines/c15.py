"""
C15 - converting a rule gives the same result whatever was converted before.

History machine over shared objects (backends, pipeline objects, class-level pipelines, process
caches) with faults; oracle = the same probe call in a fresh world (a fork of the pristine image in
which no other operation was ever executed), plus the invariant that backend class settings equal
their pristine values after every operation.
"""

from __future__ import annotations

import copy
import os
import shutil
from random import Random
from typing import Any, Iterable

from sigsim import core, gen

PROPERTY = "C15"
QUICK_RUNS = 6000
RUN_TIMEOUT = 40.0
RULE = (
    "seeded generator: history of 0-8 ops {NewBackend, InitPipeline, ConvertCollection, ConvertRule, "
    "LoadOnly, Compose, ApplyDirect, Validate, CacheClear, SetFile} with injected faults, then 1-3 Probe "
    "ops converting a freshly loaded rule; each probe is compared with the same call in a fresh world. "
    "non-trivial = the history contains >=1 executed op that touches an object the probe uses (same "
    "backend, same pipeline object, same backend class, or a document sharing a condition string / "
    "field name with the probe document); distinct = distinct (op-kind sequence, fault kinds fired, "
    "outcome class per op) signatures among the non-trivial runs"
)
REAL = ["sigma.* (all)", "PyYAML", "pyparsing", "jinja2", "re", "real file read of the placeholder source"]
STUB = ["none for this property (faults are raised at overridable backend method boundaries and by "
        "/verif-defined transformations)"]
ASSUMPTIONS = [
    "fresh world = fork of the pristine image (self-test: pristine fork == fresh interpreter)",
    "exceptions are injected only at overridable method boundaries, where real backends raise",
    "re-converting an already processed rule object is not demanded; probes load their rule freshly",
]

CLASSES = ["SimBackend", "SimBackendNE", "SimBackendIn"]
FORMATS = ["default", "alt", "st"]
EXCS = ["SigmaValueError", "SigmaFeatureNotSupportedByBackendError", "SigmaConversionError",
        "SigmaTransformationError", "NotImplementedError"]
STAGES = ["convert_condition_and", "convert_condition_or", "convert_condition_not",
          "convert_condition_field_eq_val_str", "convert_condition_field_eq_val_num",
          "convert_condition_val_str", "convert_value_str", "escape_and_quote_field",
          "finish_query", "finalize_query"]


# ------------------------------------------------------------------------------------------------
# generation


def _variant(rng: Random, doc: dict, title: str) -> dict:
    d = copy.deepcopy(doc)
    d["title"] = title
    d.pop("id", None)
    d.pop("name", None)
    r = rng.random()
    if r < 0.4:
        d["logsource"] = gen.gen_logsource(rng)
    elif r < 0.7:
        names = [k for k in d["detection"] if k != "condition"]
        d["detection"][gen.pick(rng, names)] = gen.gen_detection(rng)
    elif r < 0.85 and "fields" in d:
        d["fields"] = list(reversed(d["fields"]))
    return d


def _faults(rng: Random, titles: list[str]) -> list[dict]:
    out = []
    for t in titles:
        if gen.chance(rng, 0.35):
            out.append({"rule": t, "stage": gen.pick(rng, STAGES), "nth": rng.randint(1, 3),
                        "exc": gen.pick(rng, EXCS)})
    return out


def generate(streams: core.Streams, tier: str) -> dict:
    w, s, f = streams["workload"], streams["schedule"], streams["fault"]
    n_docs = w.randint(2, 5)
    names_pool = w.sample(gen.NAMES_PLAIN, 4)
    docs: dict[str, dict] = {}
    for i in range(n_docs):
        if i > 0 and gen.chance(w, 0.45):
            base = docs[gen.pick(w, sorted(docs))]
            docs[f"d{i}"] = _variant(w, base, f"R{i}")
        else:
            docs[f"d{i}"] = gen.gen_rule(w, f"R{i}", names_pool=names_pool, tricky=0.08)
    # optional filter and correlation rule: they take part in collections of the history and of probes
    extra_docs: dict[str, dict] = {}
    if gen.chance(w, 0.3):
        base = docs[gen.pick(w, sorted(docs))]
        extra_docs["f0"] = gen.gen_filter(w, "F0", "any", copy.deepcopy(base["logsource"]))
    if gen.chance(w, 0.25):
        tgt = gen.pick(w, sorted(docs))
        docs[tgt]["name"] = "ref_" + tgt
        extra_docs["c0"] = gen.gen_correlation(w, "C0", ["ref_" + tgt], name="corr0", generate=gen.chance(w, 0.5))
        extra_docs["c0"]["_needs"] = tgt
    n_pipes = w.randint(1, 3)
    pipelines: dict[str, dict] = {}
    for i in range(n_pipes):
        spec = gen.gen_pipeline(w, tag=f"p{i}", n_items=(1, 4), nest=0.25)
        if gen.chance(f, 0.15):
            spec["transformations"].append({"type": "sim_fail_at", "fail_at": f.randint(1, 3),
                                            "rule_conditions": [gen.rule_condition(f)]})
        if gen.chance(f, 0.15):
            spec.setdefault("postprocessing", []).append(
                {"type": "sim_fail_post", "titles": f.sample([f"R{j}" for j in range(n_docs)], 1)})
        if gen.chance(w, 0.2):
            spec["transformations"].insert(0, {"type": "file_placeholders", "path": "@SCRATCH@/values.txt",
                                               "include": ["servers"]})
            if gen.chance(w, 0.5):
                spec["transformations"][0]["filter"] = gen.pick(w, ["^srvA", "B", "srv"])
            # make sure a rule uses the placeholder the file provides
            victim = docs[gen.pick(w, sorted(docs))]
            if "detection" in victim and "phsrc" not in victim["detection"]:
                first = next(k for k in victim["detection"] if k != "condition")
                victim["detection"]["phsrc"] = {"TargetObject|expand": "%servers%"}
                victim["detection"]["condition"] = f"{first} or phsrc"
        pipelines[f"p{i}"] = spec
    class_pipelines: dict[str, dict] = {}
    for cls in CLASSES:
        if gen.chance(w, 0.35):
            class_pipelines[cls] = {}
            if gen.chance(w, 0.7):
                class_pipelines[cls]["backend"] = gen.gen_pipeline(
                    w, tag=f"b{cls[-2:]}", n_items=(1, 2), post=0.2, final=0.0,
                    kinds=["set_state", "field_name_prefix", "field_name_mapping", "add_field", "replace_string"])
            if gen.chance(w, 0.5):
                class_pipelines[cls]["alt"] = gen.gen_pipeline(
                    w, tag=f"f{cls[-2:]}", n_items=(1, 2), post=0.3, final=0.2,
                    kinds=["set_state", "field_name_suffix", "add_field", "set_field"])
    ops: list[dict] = []
    backends: list[dict] = []

    def new_backend() -> dict:
        b = {"op": "NewBackend", "id": f"b{len(backends)}", "cls": gen.pick(s, CLASSES),
             "pipeline": gen.pick(s, sorted(pipelines) + [None]) if gen.chance(s, 0.85) else None,
             "shared": gen.chance(s, 0.5), "collect_errors": gen.chance(s, 0.5), "last_format": None}
        backends.append(b)
        return b

    ops.append({k: v for k, v in new_backend().items() if k != "last_format"})
    hist_len = s.randint(0, 8)
    dids = sorted(docs)
    file_present = True
    for _ in range(hist_len):
        r = s.random()
        if r < 0.12 and len(backends) < 4:
            ops.append({k: v for k, v in new_backend().items() if k != "last_format"})
        elif r < 0.20:
            b = gen.pick(s, backends)
            fmt = gen.pick(s, FORMATS + [None])  # None: the format is left implicit (the default format)
            b["last_format"] = fmt
            ops.append({"op": "InitPipeline", "backend": b["id"], "format": fmt})
        elif r < 0.48:
            b = gen.pick(s, backends)
            sel = s.sample(dids, s.randint(1, min(4, len(dids))))
            if "f0" in extra_docs and gen.chance(s, 0.5):
                sel = ["f0"] + sel
            if "c0" in extra_docs and gen.chance(s, 0.5):
                need = extra_docs["c0"]["_needs"]
                sel = [x for x in sel if x != need] + [need, "c0"]
            fmt = gen.pick(s, FORMATS + [None])
            b["last_format"] = fmt
            ops.append({"op": "ConvertCollection", "backend": b["id"], "docs": sel, "format": fmt,
                        "faults": _faults(f, [docs[d]["title"] for d in sel if d in docs])})
        elif r < 0.66:
            b = gen.pick(s, backends)
            d = gen.pick(s, dids)
            fmt = b["last_format"] if b["last_format"] and gen.chance(s, 0.9) else gen.pick(s, FORMATS)
            if b["last_format"] is None:
                b["last_format"] = fmt
            ops.append({"op": "ConvertRule", "backend": b["id"], "doc": d, "format": fmt,
                        "faults": _faults(f, [docs[d]["title"]])})
        elif r < 0.72:
            ops.append({"op": "LoadOnly", "docs": s.sample(dids, s.randint(1, len(dids)))})
        elif r < 0.80 and len(pipelines) >= 2:
            a, b2 = s.sample(sorted(pipelines), 2)  # never a + a: adding a pipeline to itself is not a use case
            ops.append({"op": "Compose", "a": a, "b": b2})
        elif r < 0.86:
            ops.append({"op": "ApplyDirect", "pipeline": gen.pick(s, sorted(pipelines)), "doc": gen.pick(s, dids)})
        elif r < 0.91:
            ops.append({"op": "Validate", "docs": s.sample(dids, s.randint(1, len(dids)))})
        elif r < 0.94:
            ops.append({"op": "CacheClear", "which": gen.pick(f, ["parse", "packrat", "typehint", "all"])})
        else:
            file_present = not file_present
            ops.append({"op": "SetFile", "present": file_present})
    if not file_present:
        ops.append({"op": "SetFile", "present": True})
    for _ in range(s.randint(1, 3)):
        b = gen.pick(s, backends)
        via = gen.pick(s, ["convert", "convert", "convert_rule"])
        if via == "convert_rule":
            fmt = b["last_format"] if b["last_format"] and gen.chance(s, 0.85) else gen.pick(s, FORMATS)
            if b["last_format"] is None:
                b["last_format"] = fmt
        else:
            fmt = gen.pick(s, FORMATS)
            b["last_format"] = fmt
        probe = {"op": "Probe", "backend": b["id"], "doc": gen.pick(s, dids), "via": via, "format": fmt}
        if via == "convert" and "f0" in extra_docs and gen.chance(s, 0.4):
            probe["with"] = ["f0"]  # the probe rule is loaded together with the filter
        if "c0" in extra_docs and gen.chance(s, 0.3):
            # the probe is the correlation rule with the rule it refers to, converted through the single-rule
            # entry points; between the two calls the backend may convert an unrelated rule (history, not
            # part of the fresh world), possibly in another format
            fmt = b["last_format"] if b["last_format"] and gen.chance(s, 0.7) else gen.pick(s, FORMATS)
            probe = {"op": "Probe", "backend": b["id"], "doc": "c0", "with": [extra_docs["c0"]["_needs"]],
                     "via": "single_calls", "format": fmt}
            if gen.chance(s, 0.6):
                probe["between"] = {"doc": gen.pick(s, dids), "format": gen.pick(s, FORMATS)}
            b["last_format"] = fmt
        ops.append(probe)
    for d in extra_docs.values():
        d.pop("_needs", None)
    docs.update(extra_docs)
    return {
        "knobs": {"parse_cache": gen.pick(f, [None, None, 1, 2, 256]),
                  "decorated_pipelines": len(pipelines) >= 2 and gen.chance(s, 0.15)},
        "class_pipelines": class_pipelines,
        "pipelines": pipelines,
        "documents": docs,
        "ops": ops,
    }


# ------------------------------------------------------------------------------------------------
# execution


_SCRATCH: str | None = None  # one scratch directory per run, shared by history and fresh worlds
# (the same path in both, because pySigma derives item identifiers from transformation parameters)


class World:
    def __init__(self, scenario: dict, declare_all: bool = False):
        from sigsim import simbackend, world

        self.sb = simbackend
        self.w = world
        self.sc = scenario
        self.own_scratch = _SCRATCH is None
        self.scratch = world.scratch_dir() if _SCRATCH is None else _SCRATCH
        self.pobj: dict[str, Any] = {}
        self.backends: dict[str, Any] = {}
        self.bmeta: dict[str, dict] = {}
        self.unavailable: list[str] = []
        if self.own_scratch or not os.path.exists(os.path.join(self.scratch, "values.txt")):
            self.set_file(True)
        for cls, cfg in sorted(scenario.get("class_pipelines", {}).items()):
            c = simbackend.CLASSES[cls]
            if cfg.get("backend") is not None:
                c.backend_processing_pipeline = self.build(cfg["backend"])
            if cfg.get("alt") is not None:
                c.output_format_processing_pipeline["alt"] = self.build(cfg["alt"])
        # the user pipelines as functions registered with the @Pipeline decorator (sigma.pipelines.base), the way
        # plugin packages declare them: the history world declares all of them, a fresh world only the one it uses
        self.factories: dict[str, Any] = {}
        if scenario.get("knobs", {}).get("decorated_pipelines") and declare_all:
            for pid in sorted(scenario["pipelines"]):
                self._factory(pid)

    def _factory(self, pid: str) -> Any:
        from sigma.pipelines.base import Pipeline

        if pid not in self.factories:
            spec = self.sc["pipelines"][pid]
            self.factories[pid] = Pipeline(lambda spec=spec: self.build(spec))
        return self.factories[pid]

    def build_named(self, pid: str) -> Any:
        if self.sc.get("knobs", {}).get("decorated_pipelines"):
            return self._factory(pid)()
        return self.build(self.sc["pipelines"][pid])

    def close(self) -> None:
        if self.own_scratch:
            shutil.rmtree(self.scratch, ignore_errors=True)

    def set_file(self, present: bool) -> None:
        p = os.path.join(self.scratch, "values.txt")
        if present:
            with open(p, "w") as fh:
                fh.write("srvA\nsrvB*\n")
        elif os.path.exists(p):
            os.unlink(p)

    def _subst(self, spec: Any) -> Any:
        if isinstance(spec, str):
            return spec.replace("@SCRATCH@", ".")  # execute() made the scratch directory the working directory
        if isinstance(spec, list):
            return [self._subst(x) for x in spec]
        if isinstance(spec, dict):
            return {k: self._subst(v) for k, v in spec.items()}
        return spec

    def build(self, spec: dict | None) -> Any:
        if spec is None:
            return None
        return self.w.build_pipeline(self._subst(spec), allow_external_sources=True)

    def pipeline_object(self, pid: str | None, shared: bool) -> Any:
        if pid is None:
            return None
        if not shared:
            return self.build_named(pid)
        if pid not in self.pobj:
            self.pobj[pid] = self.build_named(pid)
        return self.pobj[pid]

    def new_backend(self, op: dict, fresh: bool = False) -> Any:
        cls = self.sb.CLASSES[op["cls"]]
        pipe = self.pipeline_object(op.get("pipeline"), bool(op.get("shared")) and not fresh)
        return cls(pipe, collect_errors=bool(op.get("collect_errors")))

    def convert(self, backend: Any, docs: list[dict], via: str, fmt: str, between: dict | None = None) -> dict:
        n0 = len(backend.errors)
        between_errs: list[int] = []  # positions of the records the in-between (history) conversion left

        def call() -> Any:
            if via == "convert":
                coll = self.w.load_collection(docs)
                return backend.convert(coll, fmt)
            elif via == "single_calls":
                from sigma.rule import SigmaRule

                coll = self.w.load_collection(docs)
                out: list = []
                for k, r in enumerate(coll.rules):
                    if k == 1 and between is not None:  # history: an unrelated rule, maybe another format
                        other = SigmaRule.from_dict(copy.deepcopy(self.sc["documents"][between["doc"]]))
                        k0 = len(backend.errors)
                        self.w.capture(lambda: backend.convert_rule(other, between["format"]))
                        between_errs.extend(range(k0, len(backend.errors)))
                    if isinstance(r, SigmaRule):
                        out.extend(backend.convert_rule(r, fmt))
                    else:
                        out.extend(backend.convert_correlation_rule(r, fmt))
                return out
            else:
                from sigma.rule import SigmaRule

                rule = SigmaRule.from_dict(copy.deepcopy(docs[0]))
                return backend.convert_rule(rule, fmt)

        res = self.w.capture(call)
        res["errors"] = self.w.errors_record([e for k, e in enumerate(backend.errors) if k >= n0 and k not in between_errs])
        if between_errs:
            res["_all_errors"] = self.w.errors_record(backend.errors, n0)  # in the order they were recorded
        return res


def _outcome_class(res: dict) -> str:
    if "ok" in res:
        return "ok+err" if res.get("errors") else "ok"
    return "exc:" + res.get("exc", "?")


def _fresh_probe(args: tuple[dict, int]) -> dict:
    """Fresh world: only the class-level configuration, a new backend with a pipeline rebuilt from
    the same spec, and the probe call."""
    scenario, opi = args
    world = World(scenario)
    try:
        op = scenario["ops"][opi]
        bop = next(o for o in scenario["ops"] if o["op"] == "NewBackend" and o["id"] == op["backend"])
        backend = world.new_backend(bop, fresh=True)
        return world.convert(backend, _probe_docs(scenario, op), op["via"], op["format"])
    finally:
        world.close()


def _probe_docs(scenario: dict, op: dict) -> list[dict]:
    return [scenario["documents"][d] for d in op.get("with", [])] + [scenario["documents"][op["doc"]]]


def execute(scenario: dict) -> dict:
    global _SCRATCH
    from sigsim import world as _w

    _SCRATCH = _w.scratch_dir()
    cwd = os.getcwd()
    # the pipeline specs name the scratch files relative to the working directory: generated item
    # identifiers are derived from the transformation parameters, and an absolute scratch path would
    # make them differ from one execution of the same seed to the next
    os.chdir(_SCRATCH)
    try:
        return _execute(scenario)
    finally:
        os.chdir(cwd)
        shutil.rmtree(_SCRATCH, ignore_errors=True)
        _SCRATCH = None


def _execute(scenario: dict) -> dict:
    ops = scenario["ops"]
    fresh: dict[int, dict] = {}
    for i, op in enumerate(ops):
        if op["op"] == "Probe":
            status, res = core.run_in_fork(_fresh_probe, (scenario, i), 15.0)
            if status != "ok":
                raise core.HarnessError(f"fresh-world probe failed: {status}: {res}")
            fresh[i] = res
    # ---- history world
    world = World(scenario, declare_all=True)
    log: list[Any] = []
    faults: dict[str, int] = {}
    probes: dict[str, int] = {}
    outcome_classes: list[str] = []
    violation = None
    steps = 0
    touched_backends: set[str] = set()
    touched_pipes: set[str] = set()
    touched_classes: set[str] = set()
    touched_docs: set[str] = set()
    nontrivial = False
    own_errors: dict[str, list] = {}
    try:
        world.w.set_parse_cache_size(scenario.get("knobs", {}).get("parse_cache"), world.unavailable)
        if scenario.get("knobs", {}).get("parse_cache") is not None:
            core.merge_counts(faults, {"knob:parse_cache_size": 1})
        for i, op in enumerate(ops):
            kind = op["op"]
            steps += 1
            oc = "-"
            if kind == "NewBackend":
                world.backends[op["id"]] = world.new_backend(op)
                world.bmeta[op["id"]] = op
                if op.get("shared") and op.get("pipeline") and sum(
                    1 for m in world.bmeta.values() if m.get("shared") and m.get("pipeline") == op["pipeline"]
                ) > 1:
                    probes["two_backends_share_pipeline_object"] = probes.get("two_backends_share_pipeline_object", 0) + 1
            elif kind == "InitPipeline":
                b = world.backends[op["backend"]]
                r = world.w.capture(lambda: b.init_processing_pipeline(op["format"]) or "inited")
                oc = _outcome_class(r)
                touched_backends.add(op["backend"])
            elif kind in ("ConvertCollection", "ConvertRule"):
                b = world.backends[op["backend"]]
                b.set_faults(op.get("faults", []))
                fired0 = len(b.fault_fired)
                ci0 = world.w.parse_cache_info()
                dl = op["docs"] if kind == "ConvertCollection" else [op["doc"]]
                r = world.convert(b, [scenario["documents"][d] for d in dl],
                                  "convert" if kind == "ConvertCollection" else "convert_rule", op["format"])
                ci1 = world.w.parse_cache_info()
                if ci0 and ci1 and ci1[0] > ci0[0]:
                    probes["parse_cache_hit"] = probes.get("parse_cache_hit", 0) + 1
                for ff in b.fault_fired[fired0:]:
                    core.merge_counts(faults, {f"backend:{ff['stage']}:{ff['exc']}": 1})
                    if ff["swapped"]:
                        probes["raised_while_class_templates_swapped"] = probes.get("raised_while_class_templates_swapped", 0) + 1
                b.set_faults([])
                own_errors.setdefault(op["backend"], []).extend(r.get("errors", []))
                oc = _outcome_class(r)
                if "exc" in r or r.get("errors"):
                    msg = (r.get("msg") or "") + " ".join(e.get("msg", "") for e in r.get("errors", []))
                    if "sim_fail_at" in msg:
                        core.merge_counts(faults, {"pipeline:sim_fail_at": 1})
                    if "sim_fail_post" in msg:
                        core.merge_counts(faults, {"pipeline:sim_fail_post": 1})
                    if "rule failure" in msg or "item failure" in msg:
                        core.merge_counts(faults, {"pipeline:failure_item": 1})
                    if "laceholder" in msg:
                        core.merge_counts(faults, {"pipeline:unresolved_placeholder_or_source": 1})
                log.append({"op": i, "res": r})
                touched_backends.add(op["backend"])
                touched_docs.update(dl)
                m = world.bmeta[op["backend"]]
                touched_classes.add(m["cls"])
                if m.get("shared") and m.get("pipeline"):
                    touched_pipes.add(m["pipeline"])
            elif kind == "LoadOnly":
                r = world.w.capture(lambda: len(world.w.load_collection([scenario["documents"][d] for d in op["docs"]]).rules))
                oc = _outcome_class(r)
                touched_docs.update(op["docs"])
            elif kind == "Compose":
                pa = world.pipeline_object(op["a"], True)
                pb = world.pipeline_object(op["b"], True)
                r = world.w.capture(lambda: len((pa + pb).items))
                oc = _outcome_class(r)
                touched_pipes.update([op["a"], op["b"]])
                probes["item_reowned_by_plus"] = probes.get("item_reowned_by_plus", 0) + 1
            elif kind == "ApplyDirect":
                p = world.pipeline_object(op["pipeline"], True)

                def call() -> Any:
                    coll = world.w.load_collection([scenario["documents"][op["doc"]]])
                    p.apply(coll.rules[0])
                    return "applied"

                r = world.w.capture(call)
                oc = _outcome_class(r)
                touched_pipes.add(op["pipeline"])
                touched_docs.add(op["doc"])
            elif kind == "Validate":
                def call2() -> Any:
                    from sigma.validation import SigmaValidator
                    from sigma.validators.core import validators

                    coll = world.w.load_collection([scenario["documents"][d] for d in op["docs"]])
                    v = SigmaValidator([c for n, c in sorted(validators.items()) if "attack" not in n and "d3" not in n])
                    return len(v.validate_rules(coll))

                r = world.w.capture(call2)
                oc = _outcome_class(r)
                touched_docs.update(op["docs"])
            elif kind == "CacheClear":
                world.w.flush_caches(op["which"], world.unavailable)
                core.merge_counts(faults, {"knob:cache_flush:" + op["which"]: 1})
            elif kind == "SetFile":
                world.set_file(op["present"])
                if not op["present"]:
                    core.merge_counts(faults, {"world:placeholder_source_unavailable": 1})
            elif kind == "Probe":
                b = world.backends[op["backend"]]
                m = world.bmeta[op["backend"]]
                if (op["backend"] in touched_backends or m["cls"] in touched_classes
                        or (m.get("shared") and m.get("pipeline") in touched_pipes)
                        or _shares(scenario, op["doc"], touched_docs)):
                    nontrivial = True
                got = world.convert(b, _probe_docs(scenario, op), op["via"], op["format"], op.get("between"))
                if op.get("between"):
                    probes["conversion_between_rule_and_its_correlation_rule"] = probes.get("conversion_between_rule_and_its_correlation_rule", 0) + 1
                own_errors.setdefault(op["backend"], []).extend(got.pop("_all_errors", None) or got.get("errors", []))
                want = fresh[i]
                oc = _outcome_class(got)
                log.append({"op": i, "got": got, "want": want})
                if got != want and violation is None:
                    violation = {"oracle": "probe-equals-fresh-world", "kind": _diff_kind(got, want),
                                 "step": i, "got": got, "want": want}
            outcome_classes.append(kind[:4] + ":" + oc)
            snap = world.sb.class_attr_snapshot()
            if snap != world.sb.PRISTINE_SNAPSHOT and violation is None:
                diff = {c: {a: (world.sb.PRISTINE_SNAPSHOT[c][a], v) for a, v in attrs.items()
                            if world.sb.PRISTINE_SNAPSHOT[c][a] != v} for c, attrs in snap.items()}
                violation = {"oracle": "class-settings-restored", "kind": "class-attribute-changed",
                             "step": i, "got": {c: d for c, d in diff.items() if d}, "want": "pristine"}
            # a backend's error list holds exactly the records of its own conversions
            if violation is None:
                for bid, b2 in world.backends.items():
                    have = world.w.errors_record(b2.errors)
                    if have != own_errors.get(bid, []):
                        violation = {"oracle": "backend-errors-are-its-own", "kind": "foreign-or-missing-records",
                                     "step": i, "got": {"backend": bid, "errors": have},
                                     "want": {"backend": bid, "errors": own_errors.get(bid, [])}}
                        break
            if violation is not None:
                break
    finally:
        world.close()
    sig = core.digest([[o["op"] for o in ops], sorted(faults), outcome_classes])
    return {"violation": violation, "log": log, "faults": faults, "probes": probes, "steps": steps,
            "signature": sig, "nontrivial": nontrivial, "unavailable_knobs": sorted(set(world.unavailable))}


def _shares(scenario: dict, did: str, touched: set[str]) -> bool:
    if did in touched:
        return True
    if "detection" not in scenario["documents"][did]:
        return False
    d = scenario["documents"][did]["detection"]
    conds = d["condition"] if isinstance(d["condition"], list) else [d["condition"]]
    for t in touched:
        if "detection" not in scenario["documents"][t]:
            continue
        o = scenario["documents"][t]["detection"]
        oc = o["condition"] if isinstance(o["condition"], list) else [o["condition"]]
        if set(conds) & set(oc):
            return True
    return False


def _diff_kind(got: dict, want: dict) -> str:
    if ("ok" in got) != ("ok" in want):
        return "success-vs-failure"
    if "ok" in got:
        if got.get("ok") != want.get("ok"):
            return "queries-differ"
        return "errors-differ"
    if got.get("exc") != want.get("exc"):
        return "exception-class-differs"
    return "exception-message-differs"


# ------------------------------------------------------------------------------------------------
# minimisation


def shrink(sc: dict) -> Iterable[dict]:
    ops = sc["ops"]
    probes_idx = [i for i, o in enumerate(ops) if o["op"] == "Probe"]
    # keep only one probe at a time
    if len(probes_idx) > 1:
        for keep in probes_idx:
            c = copy.deepcopy(sc)
            c["ops"] = [o for i, o in enumerate(ops) if o["op"] != "Probe" or i == keep]
            yield c
    # drop ops (not NewBackend that is still used, not the last probe)
    for i in reversed(range(len(ops))):
        o = ops[i]
        if o["op"] == "Probe" and len(probes_idx) == 1:
            continue
        if o["op"] == "NewBackend" and any(x.get("backend") == o["id"] for x in ops):
            continue
        c = copy.deepcopy(sc)
        del c["ops"][i]
        yield c
    # drop faults
    for i, o in enumerate(ops):
        for j in range(len(o.get("faults", []))):
            c = copy.deepcopy(sc)
            del c["ops"][i]["faults"][j]
            yield c
    # shrink doc lists
    for i, o in enumerate(ops):
        if o["op"] in ("ConvertCollection", "LoadOnly", "Validate") and len(o["docs"]) > 1:
            for j in range(len(o["docs"])):
                c = copy.deepcopy(sc)
                del c["ops"][i]["docs"][j]
                yield c
    # knobs and class pipelines
    if sc.get("knobs", {}).get("parse_cache") is not None:
        c = copy.deepcopy(sc)
        c["knobs"]["parse_cache"] = None
        yield c
    for cls in sorted(sc.get("class_pipelines", {})):
        c = copy.deepcopy(sc)
        del c["class_pipelines"][cls]
        yield c
        for part in sorted(sc["class_pipelines"][cls]):
            c = copy.deepcopy(sc)
            del c["class_pipelines"][cls][part]
            yield c
    # simplify backends
    for i, o in enumerate(ops):
        if o["op"] == "NewBackend":
            if o.get("pipeline") is not None:
                c = copy.deepcopy(sc)
                c["ops"][i]["pipeline"] = None
                yield c
            if o.get("shared"):
                c = copy.deepcopy(sc)
                c["ops"][i]["shared"] = False
                yield c
            if o.get("collect_errors"):
                c = copy.deepcopy(sc)
                c["ops"][i]["collect_errors"] = False
                yield c
    # unused documents / pipelines
    used_docs = set()
    for o in ops:
        used_docs.update(o.get("docs", []))
        if "doc" in o:
            used_docs.add(o["doc"])
    for o in ops:
        used_docs.update(o.get("with", []))
    for d in sorted(sc["documents"]):
        if d not in used_docs:
            c = copy.deepcopy(sc)
            del c["documents"][d]
            yield c
    used_p = {o.get("pipeline") for o in ops} | {o.get("a") for o in ops} | {o.get("b") for o in ops}
    for p in sorted(sc["pipelines"]):
        if p not in used_p:
            c = copy.deepcopy(sc)
            del c["pipelines"][p]
            yield c
    # pipeline items
    for p in sorted(sc["pipelines"]):
        for part in ("transformations", "postprocessing", "finalizers"):
            items = sc["pipelines"][p].get(part, [])
            for j in reversed(range(len(items))):
                c = copy.deepcopy(sc)
                del c["pipelines"][p][part][j]
                yield c
        if "vars" in sc["pipelines"][p]:
            c = copy.deepcopy(sc)
            del c["pipelines"][p]["vars"]
            yield c
        for j, it in enumerate(sc["pipelines"][p].get("transformations", [])):
            for k in ("rule_conditions", "field_name_conditions", "detection_item_conditions",
                      "rule_cond_op", "rule_cond_not", "id"):
                if k in it:
                    c = copy.deepcopy(sc)
                    del c["pipelines"][p]["transformations"][j][k]
                    yield c
    # documents: drop detections / items / meta
    for d in sorted(sc["documents"]):
        doc = sc["documents"][d]
        if "detection" not in doc:
            continue
        for k in ("status", "level", "tags", "date", "description", "custom_x", "fields"):
            if k in doc:
                c = copy.deepcopy(sc)
                del c["documents"][d][k]
                yield c
        det = doc["detection"]
        if isinstance(det.get("condition"), list) and len(det["condition"]) > 1:
            for j in range(len(det["condition"])):
                c = copy.deepcopy(sc)
                del c["documents"][d]["detection"]["condition"][j]
                yield c
        names = [k for k in det if k != "condition"]
        for n in names:
            if len(names) > 1:
                c = copy.deepcopy(sc)
                del c["documents"][d]["detection"][n]
                c["documents"][d]["detection"]["condition"] = gen.pick(Random(0), [x for x in names if x != n])
                yield c
            v = det[n]
            if isinstance(v, dict) and len(v) > 1:
                for k in list(v):
                    c = copy.deepcopy(sc)
                    del c["documents"][d]["detection"][n][k]
                    yield c
            if isinstance(v, list) and len(v) > 1:
                for j in range(len(v)):
                    c = copy.deepcopy(sc)
                    del c["documents"][d]["detection"][n][j]
                    yield c
        cond = det.get("condition")
        if isinstance(cond, str) and cond not in names and names:
            c = copy.deepcopy(sc)
            c["documents"][d]["detection"]["condition"] = names[0]
            yield c


# ------------------------------------------------------------------------------------------------
# known-finding tags: pure predicates over scenario content


def tags(sc: dict, violation: dict) -> set[str]:
    t: set[str] = set()
    ops = sc["ops"]
    probe = next((o for o in ops if o["op"] == "Probe"), None)
    if probe is None:
        return t
    inits = [o for o in ops if o.get("backend") == probe["backend"]
             and o["op"] in ("InitPipeline", "ConvertCollection", "ConvertRule")]
    if probe["via"] == "convert_rule" and inits and inits[-1]["format"] != probe["format"]:
        t.add("convert_rule-format-differs-from-initialised-format")
    return t

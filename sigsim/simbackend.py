"""
SimBackend family: TextQueryBackend subclasses, defined in /verif, with an unambiguous output syntax,
a scenario-driven fault plan at the overridable method boundaries where real backends raise, and a
query_expression that makes pipeline state and the rule's field list visible in the output.

The only seam used is subclassing, which TextQueryBackend is designed for.
"""

from __future__ import annotations

import re
from collections import defaultdict
from typing import Any, ClassVar

from sigma import exceptions as sx
from sigma.conversion.base import TextQueryBackend
from sigma.conversion.deferred import DeferredTextQueryExpression
from sigma.conversion.state import ConversionState
from sigma.processing.pipeline import ProcessingPipeline
from sigma.types import CompareOperators, SigmaRegularExpression, SigmaRegularExpressionFlag, TimestampPart

EXC = {
    "SigmaValueError": sx.SigmaValueError,
    "SigmaFeatureNotSupportedByBackendError": sx.SigmaFeatureNotSupportedByBackendError,
    "SigmaConversionError": None,  # needs rule argument, built specially
    "SigmaTransformationError": sx.SigmaTransformationError,
    "SigmaBackendError": sx.SigmaBackendError,
    "NotImplementedError": NotImplementedError,
}

FAULT_STAGES = [
    "convert_condition_and",
    "convert_condition_or",
    "convert_condition_not",
    "convert_condition_field_eq_val_str",
    "convert_condition_field_eq_val_num",
    "convert_condition_val_str",
    "convert_value_str",
    "escape_and_quote_field",
    "finish_query",
    "finalize_query",
]


class InjectedFault(Exception):
    pass


class SimRegexDeferred(DeferredTextQueryExpression):
    template = "deferred_re({field}{op}{value})"
    operators = {True: "!~", False: "~"}
    default_field = "_"


class SimBackend(TextQueryBackend):
    """Base variant: NOT as token, no in-expressions, exists/not exists via NOT."""

    name: ClassVar[str] = "sim"
    formats: ClassVar[dict[str, str]] = {"default": "plain", "alt": "wrapped", "st": "state", "doc": "one document"}

    precedence = TextQueryBackend.precedence
    group_expression: ClassVar[str] = "({expr})"
    or_token: ClassVar[str] = "OR"
    and_token: ClassVar[str] = "AND"
    not_token: ClassVar[str] = "NOT"
    eq_token: ClassVar[str] = "="

    field_quote: ClassVar[str] = "`"
    field_quote_pattern: ClassVar[re.Pattern[str]] = re.compile("^[\\w.]+$")
    field_escape: ClassVar[str] = "\\"

    str_quote: ClassVar[str] = '"'
    escape_char: ClassVar[str] = "\\"
    wildcard_multi: ClassVar[str] = "*"
    wildcard_single: ClassVar[str] = "?"
    add_escaped: ClassVar[str] = "\\"
    bool_values: ClassVar[dict[bool, str | None]] = {True: "true", False: "false"}

    startswith_expression: ClassVar[str | None] = "{field} startswith {value}"
    endswith_expression: ClassVar[str | None] = "{field} endswith {value}"
    contains_expression: ClassVar[str | None] = "{field} contains {value}"
    wildcard_match_expression: ClassVar[str | None] = "{field} like {value}"

    field_exists_expression: ClassVar[str | None] = "exists({field})"
    field_not_exists_expression: ClassVar[str | None] = None

    re_expression: ClassVar[str | None] = "{field}=~/{regex}/{flag_i}{flag_m}{flag_s}"
    re_escape_char: ClassVar[str] = "\\"
    re_escape: ClassVar[list[str]] = ["/"]
    re_flag_prefix: bool = False
    # the base variant knows only the ignore-case flag: a rule using several other flags fails with an
    # error that names one unsupported flag (the NE variant supports all flags through the (?ims) prefix)
    re_flags: dict = {SigmaRegularExpressionFlag.IGNORECASE: "i"}

    case_sensitive_match_expression: ClassVar[str | None] = "{field} cased {value}"
    cidr_expression: ClassVar[str | None] = "cidr({field}, {value})"
    compare_op_expression: ClassVar[str | None] = "{field}{operator}{value}"
    compare_operators: ClassVar[dict[CompareOperators, str] | None] = {
        CompareOperators.LT: "<",
        CompareOperators.LTE: "<=",
        CompareOperators.GT: ">",
        CompareOperators.GTE: ">=",
        CompareOperators.NEQ: "!=",
    }
    field_equals_field_expression: ClassVar[str | None] = "{field1}==ref({field2})"
    field_null_expression: ClassVar[str | None] = "{field} is null"

    unbound_value_str_expression: ClassVar[str | None] = "kw({value})"
    unbound_value_num_expression: ClassVar[str | None] = "kw({value})"
    unbound_value_re_expression: ClassVar[str | None] = "kw(/{value}/)"

    deferred_start: ClassVar[str | None] = " ;; "
    deferred_separator: ClassVar[str | None] = " ;; "
    deferred_only_query: ClassVar[str] = "*"

    # pipeline state and the rule's field list are visible in every query, and every query is
    # attributable to the rule it came from.
    query_expression: ClassVar[str] = "<{rule.title}> {query} | idx={state[index]} | fields={rule.fields}"
    state_defaults: ClassVar[dict[str, str]] = {"index": "default"}

    backend_processing_pipeline: ClassVar[ProcessingPipeline] = ProcessingPipeline()
    output_format_processing_pipeline: ClassVar[dict[str, ProcessingPipeline]] = defaultdict(
        ProcessingPipeline
    )

    # correlations
    correlation_methods: ClassVar[dict[str, str] | None] = {"sim": "sim"}
    default_correlation_method: ClassVar[str] = "sim"
    default_correlation_query: ClassVar[dict[str, str] | None] = {
        "sim": "CORR[{search} || {aggregate} || {condition}]"
    }
    temporal_extended_correlation_query = default_correlation_query
    temporal_ordered_extended_correlation_query = default_correlation_query
    correlation_search_single_rule_expression: ClassVar[str | None] = None
    correlation_search_multi_rule_expression: ClassVar[str | None] = "{queries}"
    correlation_search_multi_rule_query_expression: ClassVar[str | None] = (
        "sub[{ruleid}]{{ {query}{normalization} }}"
    )
    correlation_search_multi_rule_query_expression_joiner: ClassVar[str | None] = " ++ "
    correlation_search_field_normalization_expression: ClassVar[str | None] = " | norm {alias}={field}"
    correlation_search_field_normalization_expression_joiner: ClassVar[str | None] = ""
    event_count_aggregation_expression = {"sim": "agg count window={timespan}{groupby}"}
    value_count_aggregation_expression = {"sim": "agg vcount({field}) window={timespan}{groupby}"}
    temporal_aggregation_expression = {"sim": "agg temporal({referenced_rules}) window={timespan}{groupby}"}
    temporal_ordered_aggregation_expression = {
        "sim": "agg temporal_ordered({referenced_rules}) window={timespan}{groupby}"
    }
    temporal_extended_aggregation_expression = {"sim": "agg temporal_ext window={timespan}{groupby}"}
    temporal_ordered_extended_aggregation_expression = {
        "sim": "agg temporal_ordered_ext window={timespan}{groupby}"
    }
    value_sum_aggregation_expression = {"sim": "agg sum({field}) window={timespan}{groupby}"}
    value_avg_aggregation_expression = {"sim": "agg avg({field}) window={timespan}{groupby}"}
    value_percentile_aggregation_expression = {"sim": "agg pct({field}) window={timespan}{groupby}"}
    value_median_aggregation_expression = {"sim": "agg median({field}) window={timespan}{groupby}"}
    referenced_rules_expression = {"sim": "{ruleid}"}
    referenced_rules_expression_joiner = {"sim": ","}
    groupby_expression = {"sim": " by {fields}"}
    groupby_field_expression = {"sim": "{field}"}
    groupby_field_expression_joiner = {"sim": ","}
    event_count_condition_expression = {"sim": "where count {op} {count}"}
    value_count_condition_expression = {"sim": "where vcount {op} {count}"}
    temporal_condition_expression = {"sim": "where types {op} {count}"}
    temporal_ordered_condition_expression = {"sim": "where types {op} {count} order={referenced_rules}"}
    temporal_extended_condition_expression = {"sim": "where {extended_condition}"}
    temporal_ordered_extended_condition_expression = {"sim": "where {extended_condition}"}
    value_sum_condition_expression = {"sim": "where sum {op} {count}"}
    value_avg_condition_expression = {"sim": "where avg {op} {count}"}
    value_percentile_condition_expression = {"sim": "where pct {op} {count}"}
    value_median_condition_expression = {"sim": "where median {op} {count}"}
    extended_correlation_condition_rule_reference_expression = {"sim": "hit({ruleid})"}

    # ------------------------------------------------------------------ fault plan
    def __init__(self, processing_pipeline: ProcessingPipeline | None = None,
                 collect_errors: bool = False, **kwargs: Any):
        super().__init__(processing_pipeline, collect_errors, **kwargs)
        self.fault_plan: list[dict[str, Any]] = []
        self.fault_calls: dict[tuple[str, str], int] = {}
        self.fault_fired: list[dict[str, Any]] = []
        self._cur_rule: Any = None
        self._in_negation = 0
        self.probe_swapped_raise = 0

    def set_faults(self, plan: list[dict[str, Any]]) -> None:
        self.fault_plan = list(plan or [])
        self.fault_calls = {}

    def _fault_point(self, stage: str) -> None:
        if not self.fault_plan or self._cur_rule is None:
            return
        title = self._cur_rule.title
        key = (title, stage)
        n = self.fault_calls.get(key, 0) + 1
        self.fault_calls[key] = n
        for f in self.fault_plan:
            if f["rule"] == title and f["stage"] == stage and f["nth"] == n:
                self.fault_fired.append(
                    {"stage": stage, "exc": f["exc"], "swapped": self._templates_swapped()}
                )
                if self._templates_swapped():
                    self.probe_swapped_raise += 1
                msg = f"injected fault at {stage}#{n} for rule {title}"
                if f.get("bare") and f["exc"] == "NotImplementedError":
                    raise NotImplementedError  # the idiomatic argument-less form
                if f["exc"] == "SigmaConversionError":
                    raise sx.SigmaConversionError(self._cur_rule, self._cur_rule.source, msg)
                raise EXC[f["exc"]](msg)

    def _templates_swapped(self) -> bool:
        return type(self).eq_expression != PRISTINE_ATTRS[type(self).__name__]["eq_expression"]

    def convert_rule(self, rule: Any, output_format: str | None = None, callback: Any = None) -> Any:
        prev = self._cur_rule
        self._cur_rule = rule
        self.fault_calls = {}  # "n-th call" counts per rule conversion (two rules may share a title)
        try:
            return super().convert_rule(rule, output_format, callback)
        finally:
            self._cur_rule = prev

    def convert_correlation_rule(self, rule: Any, output_format: str | None = None,
                                 method: str | None = None, callback: Any = None) -> Any:
        prev = self._cur_rule
        self._cur_rule = rule
        try:
            return super().convert_correlation_rule(rule, output_format, method, callback)
        finally:
            self._cur_rule = prev

    def convert_condition_and(self, cond: Any, state: ConversionState) -> Any:
        self._fault_point("convert_condition_and")
        return super().convert_condition_and(cond, state)

    def convert_condition_or(self, cond: Any, state: ConversionState) -> Any:
        self._fault_point("convert_condition_or")
        return super().convert_condition_or(cond, state)

    def convert_condition_not(self, cond: Any, state: ConversionState) -> Any:
        self._fault_point("convert_condition_not")
        return super().convert_condition_not(cond, state)

    def convert_condition_field_eq_val_str(self, cond: Any, state: ConversionState) -> Any:
        self._fault_point("convert_condition_field_eq_val_str")
        return super().convert_condition_field_eq_val_str(cond, state)

    def convert_condition_field_eq_val_num(self, cond: Any, state: ConversionState) -> Any:
        self._fault_point("convert_condition_field_eq_val_num")
        return super().convert_condition_field_eq_val_num(cond, state)

    def convert_condition_val_str(self, cond: Any, state: ConversionState) -> Any:
        self._fault_point("convert_condition_val_str")
        return super().convert_condition_val_str(cond, state)

    def convert_value_str(self, s: Any, state: ConversionState) -> str:
        self._fault_point("convert_value_str")
        return super().convert_value_str(s, state)

    def escape_and_quote_field(self, field_name: str) -> str:
        self._fault_point("escape_and_quote_field")
        return super().escape_and_quote_field(field_name)

    def finish_query(self, rule: Any, query: Any, state: ConversionState) -> Any:
        self._fault_point("finish_query")
        return super().finish_query(rule, query, state)

    def finalize_query(self, rule: Any, query: Any, index: int, state: ConversionState,
                       output_format: str) -> Any:
        self._fault_point("finalize_query")
        return super().finalize_query(rule, query, index, state, output_format)

    # ------------------------------------------------------------------ formats
    def finalize_query_alt(self, rule: Any, query: Any, index: int, state: ConversionState) -> Any:
        return f"ALT#{index}[{query}]"

    def finalize_output_alt(self, queries: list[Any]) -> Any:
        return queries

    def finalize_query_st(self, rule: Any, query: Any, index: int, state: ConversionState) -> Any:
        # the tracking data a backend can read from the pipeline after it was applied to the rule:
        # the identifiers of the applied items and the field mapping table
        p = self.last_processing_pipeline
        applied = sorted(p.applied_ids)  # generated identifiers too: they are documented as deterministic
        fmap = sorted((str(k), sorted(map(str, v))) for k, v in p.field_mappings.items())
        fna = sorted((str(k), sorted(map(str, v))) for k, v in p.field_name_applied_ids.items() if v)
        return (f"ST(index={state.processing_state.get('index', 'none')} applied={applied} "
                f"fieldmap={fmap}" + (f" fieldapplied={fna}" if fna else "") + f")[{query}]")

    def finalize_output_st(self, queries: list[Any]) -> Any:
        return queries

    # a format whose output is one document (a string) instead of a list of queries
    def finalize_query_doc(self, rule: Any, query: Any, index: int, state: ConversionState) -> Any:
        return query

    def finalize_output_doc(self, queries: list[Any]) -> Any:
        return " ## ".join(str(q) for q in queries)


class SimBackendNE(SimBackend):
    """NOT rendered as != : class templates are swapped while a negated subtree is converted."""

    name: ClassVar[str] = "sim_ne"
    convert_not_as_not_eq: ClassVar[bool] = True
    not_eq_token: ClassVar[str | None] = "!="
    not_eq_expression: ClassVar[str] = "{field}{backend.not_eq_token}{value}"
    not_startswith_expression: ClassVar[str | None] = "{field} not_startswith {value}"
    not_endswith_expression: ClassVar[str | None] = "{field} not_endswith {value}"
    not_contains_expression: ClassVar[str | None] = "{field} not_contains {value}"
    not_re_expression: ClassVar[str | None] = "{field}!~/{regex}/"
    re_expression: ClassVar[str | None] = "{field}=~/{regex}/"
    re_flag_prefix: bool = True  # flags rendered as (?ims) prefix built from the flag set
    re_flags: dict = SigmaRegularExpression.sigma_to_re_flag
    not_cidr_expression: ClassVar[str | None] = "not_cidr({field}, {value})"
    re_flag_prefix: bool = True
    re_expression: ClassVar[str | None] = "{field}=~/{regex}/"
    not_re_expression: ClassVar[str | None] = "{field}!~/{regex}/"
    backend_processing_pipeline: ClassVar[ProcessingPipeline] = ProcessingPipeline()
    output_format_processing_pipeline: ClassVar[dict[str, ProcessingPipeline]] = defaultdict(
        ProcessingPipeline
    )


class SimBackendIn(SimBackend):
    """in-expressions on, explicit not-exists expression, regex as deferred expression."""

    name: ClassVar[str] = "sim_in"
    convert_or_as_in: ClassVar[bool] = True
    convert_and_as_in: ClassVar[bool] = True
    in_expressions_allow_wildcards: ClassVar[bool] = False
    field_in_list_expression: ClassVar[str | None] = "{field} {op} [{list}]"
    or_in_operator: ClassVar[str | None] = "in"
    and_in_operator: ClassVar[str | None] = "all-in"
    list_separator: ClassVar[str | None] = ", "
    field_not_exists_expression: ClassVar[str | None] = "missing({field})"
    # timestamp parts: supported for hours only (a backend with a partial table, like partial re_flags)
    field_timestamp_part_expression: ClassVar[str | None] = "tspart({field}, {timestamp_part})"
    timestamp_part_mapping: ClassVar[dict | None] = {TimestampPart.HOUR: "h"}
    backend_processing_pipeline: ClassVar[ProcessingPipeline] = ProcessingPipeline()
    output_format_processing_pipeline: ClassVar[dict[str, ProcessingPipeline]] = defaultdict(
        ProcessingPipeline
    )

    def convert_condition_field_eq_val_re(self, cond: Any, state: ConversionState) -> Any:
        assert isinstance(cond.value, SigmaRegularExpression)
        return SimRegexDeferred(state, cond.field, cond.value.regexp).postprocess(None, cond.parent)  # type: ignore


class SimBackendPlain(SimBackend):
    """For C06: standard precedence, no shortcuts, no pipelines, bare query output."""

    name: ClassVar[str] = "sim_plain"
    query_expression: ClassVar[str] = "{query}"
    startswith_expression = None
    endswith_expression = None
    contains_expression = None
    wildcard_match_expression = None
    backend_processing_pipeline: ClassVar[ProcessingPipeline] = ProcessingPipeline()
    output_format_processing_pipeline: ClassVar[dict[str, ProcessingPipeline]] = defaultdict(
        ProcessingPipeline
    )


CLASSES: dict[str, type[SimBackend]] = {
    "SimBackend": SimBackend,
    "SimBackendNE": SimBackendNE,
    "SimBackendIn": SimBackendIn,
    "SimBackendPlain": SimBackendPlain,
}

_WATCHED = [
    "eq_expression", "re_expression", "cidr_expression", "startswith_expression",
    "case_sensitive_startswith_expression", "endswith_expression",
    "case_sensitive_endswith_expression", "contains_expression",
    "case_sensitive_contains_expression", "not_eq_expression", "not_re_expression",
    "not_cidr_expression", "not_startswith_expression", "not_endswith_expression",
    "not_contains_expression", "query_expression", "convert_not_as_not_eq", "convert_or_as_in",
    "convert_and_as_in", "wildcard_match_expression", "field_exists_expression",
    "field_not_exists_expression", "case_sensitive_match_expression", "or_token", "and_token",
    "not_token", "eq_token", "not_eq_token", "group_expression", "field_null_expression",
    "compare_op_expression", "field_in_list_expression", "parenthesize", "precedence",
]


def class_attr_snapshot() -> dict[str, dict[str, str]]:
    """Observable class settings of every SimBackend class (explicit_not_exists_expression, which
    __new__ legitimately derives per class, is excluded)."""
    return {
        name: {a: repr(getattr(cls, a, None)) for a in _WATCHED} for name, cls in CLASSES.items()
    }


PRISTINE_ATTRS: dict[str, dict[str, Any]] = {
    name: {"eq_expression": cls.eq_expression} for name, cls in CLASSES.items()
}
PRISTINE_SNAPSHOT = class_attr_snapshot()

"""
Self-test of the simulator (run as MANIFEST.setup_cmd in --fast mode, and in full before thorough
soaks):

 1. determinism: the same seeds executed twice, in separate processes, with 1 and 16 workers, give
    identical event-log digests; a third execution under another PYTHONHASHSEED gives the identical
    schedule digest (ops and fault decisions) - outcome differences there are C20 material;
 2. pristine fork == fresh interpreter: sample runs re-executed in cold interpreters give the same
    record digest as the fork of the preloaded parent;
 3. witnesses of repaired defects (known_findings.json, status fixed) replay without violation;
 4. (full mode) sensitivity: every mutants/*.patch applied to a scratch copy of /repo makes the quick
    tier of its property report a VIOLATION.
"""

from __future__ import annotations

import glob
import json
import os
import shutil
import subprocess
import sys
import tempfile
import time
from typing import Any

HERE = os.path.dirname(os.path.dirname(os.path.abspath(__file__)))
CHECK = [sys.executable, os.path.join(HERE, "checkmain.py")]


def _run(args: list[str], env_extra: dict[str, str] | None = None, timeout: float = 600) -> tuple[int, str]:
    env = dict(os.environ)
    env.pop("PYTHONHASHSEED", None)
    env.update(env_extra or {})
    p = subprocess.run(CHECK + args, capture_output=True, text=True, env=env, timeout=timeout, cwd=HERE)
    return p.returncode, p.stdout + p.stderr


def claimed_props() -> list[str]:
    out = []
    for f in sorted(glob.glob(os.path.join(HERE, "sigsim", "machines", "c[0-9][0-9].py"))):
        out.append(os.path.basename(f)[:-3].upper())
    return out


def main(args: Any) -> int:
    t0 = time.monotonic()
    props = [p.upper() for p in args.props.split(",") if p] or claimed_props()
    fast = bool(args.fast)
    n = 24 if fast else 200
    failures: list[str] = []
    for prop in props:
        runs = n if prop not in ("C20",) else max(4, n // 8)
        if prop == "C09":
            runs = max(6, runs // 4)
        res = {}
        for label, extra_args, env in (
            ("w16", ["--workers", "16"], {}),
            ("w1", ["--workers", "1"] if fast else ["--workers", "2"], {}),
            ("hs", ["--workers", "16"], {"PYTHONHASHSEED": "12345"}),
        ):
            rc, out = _run(["digest", prop, "--runs", str(runs)] + extra_args, env)
            try:
                res[label] = json.loads(out.strip().splitlines()[-1])
            except Exception:
                failures.append(f"{prop}: digest run {label} failed rc={rc}: {out[-500:]}")
                res[label] = None
        if all(res.values()):
            if res["w16"]["digest"] != res["w1"]["digest"]:
                failures.append(f"{prop}: event-log digest differs between worker counts: {res['w16']} vs {res['w1']}")
            if res["w16"]["schedule"] != res["hs"]["schedule"]:
                failures.append(f"{prop}: schedule digest differs under another PYTHONHASHSEED")
            if any(r["harness"] for r in res.values()):
                failures.append(f"{prop}: harness errors in digest runs: {res}")
            print(f"[selftest] {prop}: determinism ok over {runs} seeds x (16 workers, {'1' if fast else '2'} workers, other hash seed): "
                  f"{res['w16']['digest']} outcome-digest-under-other-hashseed-equal={res['w16']['digest'] == res['hs']['digest']}", flush=True)
        # cold interpreter equivalence
        k = 2 if fast else 6
        rc, out = _run(["digest", prop, "--runs", str(k), "--workers", "4", "--records"])
        try:
            warm = json.loads(out.strip().splitlines()[-1])["records"]
        except Exception:
            failures.append(f"{prop}: warm records failed: {out[-300:]}")
            continue
        for i in range(k):
            rc, out = _run(["one", prop, "--index", str(i)])
            try:
                cold = json.loads(out.strip().splitlines()[-1])
            except Exception:
                failures.append(f"{prop}: cold run {i} failed rc={rc}: {out[-500:]}")
                continue
            if cold["digest"] != warm[str(i)]:
                failures.append(f"{prop}: run {i}: cold interpreter digest {cold['digest']} != pristine fork digest {warm[str(i)]}")
        print(f"[selftest] {prop}: pristine fork == cold interpreter on {k} runs", flush=True)
    # fixed witnesses
    kf = os.path.join(HERE, "known_findings.json")
    if os.path.exists(kf):
        with open(kf) as fh:
            findings = json.load(fh).get("findings", [])
        for f in findings:
            if f.get("status") != "fixed" or f.get("property") not in props:
                continue
            ws = f.get("witness", [])
            for w in ws if isinstance(ws, list) else [ws]:
                rc, out = _run(["replay", w])
                if rc != 0:
                    failures.append(f"fixed finding {f['id']}: witness {w} fails again (rc={rc}): {out[-400:]}")
        print(f"[selftest] fixed-finding witnesses replayed", flush=True)
    if not fast:
        failures.extend(sensitivity(props))
        failures.extend(benign(props))
    for f in failures:
        print("SELFTEST-FAIL:", f)
    print(f"[selftest] {'FAILED' if failures else 'ok'} in {time.monotonic() - t0:.1f}s")
    return 2 if failures else 0


def sensitivity(props: list[str]) -> list[str]:
    failures = []
    patches = sorted(glob.glob(os.path.join(HERE, "mutants", "*.patch")))
    for patch in patches:
        name = os.path.basename(patch)
        prop = name.split("-")[0].upper()
        if prop not in props:
            continue
        scratch = tempfile.mkdtemp(prefix="sigsim-mutant-")
        try:
            dst = os.path.join(scratch, "repo")
            os.makedirs(dst)
            shutil.copytree("/repo/sigma", os.path.join(dst, "sigma"))
            p = subprocess.run(["patch", "-p1", "-s", "-i", patch], cwd=dst, capture_output=True, text=True)
            if p.returncode != 0:
                failures.append(f"mutant {name}: patch does not apply: {p.stdout}{p.stderr}")
                continue
            rc, out = _run([prop, "--tier", "quick", "--no-evidence"], {"VERIF_REPO": dst, "VERIF_MAX_REPORTS": "1",
                                                                        "VERIF_MIN_BUDGET_S": "5"}, timeout=900)
            caught = rc == 1 and "VIOLATION property=" + prop in out
            print(f"[selftest] mutant {name}: {'caught' if caught else 'MISSED'} (rc={rc})", flush=True)
            if not caught:
                failures.append(f"mutant {name} not caught by {prop} quick tier (rc={rc}): {out[-300:]}")
        finally:
            shutil.rmtree(scratch, ignore_errors=True)
    return failures


def benign(props: list[str]) -> list[str]:
    """Behaviour-preserving refactorings (benign/*.patch; the properties to run are in the file name):
    every named quick tier must stay quiet (exit 0, no VIOLATION line)."""
    failures = []
    for patch in sorted(glob.glob(os.path.join(HERE, "benign", "*.patch"))):
        name = os.path.basename(patch)
        targets = [p for p in name.split("-") if len(p) == 3 and p[0] == "C" and p[1:].isdigit() and p in props]
        if not targets:
            continue
        scratch = tempfile.mkdtemp(prefix="sigsim-benign-")
        try:
            dst = os.path.join(scratch, "repo")
            os.makedirs(dst)
            shutil.copytree("/repo/sigma", os.path.join(dst, "sigma"))
            p = subprocess.run(["patch", "-p1", "-s", "-i", patch], cwd=dst, capture_output=True, text=True)
            if p.returncode != 0:
                failures.append(f"benign {name}: patch does not apply: {p.stdout}{p.stderr}")
                continue
            for prop in targets:
                rc, out = _run([prop, "--tier", "quick", "--no-evidence"], {"VERIF_REPO": dst}, timeout=900)
                quiet = rc == 0 and "VIOLATION" not in out
                print(f"[selftest] benign {name} / {prop}: {'quiet' if quiet else 'ALARM'} (rc={rc})", flush=True)
                if not quiet:
                    failures.append(f"benign refactoring {name} raises an alarm in {prop} (rc={rc}): {out[-400:]}")
        finally:
            shutil.rmtree(scratch, ignore_errors=True)
    return failures

"""
sigsim core: seeds, fork-per-run executor from a pristine image, batch runner, delta-debugging
minimiser, replay, known-findings matching and evidence writer.

Nothing in this module calls pySigma.  One integer (VERIF_SEED) decides everything: run i of
property P uses run_seed = sha256(f"{VERIF_SEED}:{P}:{i}")[:8]; inside a run, named PRNG streams are
derived from run_seed.  Logging never draws from a PRNG and never reads a clock.
"""

from __future__ import annotations

import copy
import faulthandler
import hashlib
import json
import os
import random
import select
import shutil
import signal
import sys
import tempfile
import time
import traceback
from typing import Any, Callable, Iterable

VERIF_DIR = os.path.dirname(os.path.dirname(os.path.abspath(__file__)))
REPO_DIR = os.environ.get("VERIF_REPO", "/repo")


# ------------------------------------------------------------------------------------------------
# seeds and streams


def verif_seed() -> int:
    try:
        return int(os.environ.get("VERIF_SEED", "1"))
    except ValueError:
        return 1


def run_seed(prop: str, index: int, base: int | None = None) -> int:
    base = verif_seed() if base is None else base
    return int.from_bytes(hashlib.sha256(f"{base}:{prop}:{index}".encode()).digest()[:8], "big")


class Streams:
    """Named, independent PRNG streams derived from one run seed."""

    def __init__(self, seed: int):
        self.seed = seed
        self._cache: dict[str, random.Random] = {}

    def __getitem__(self, name: str) -> random.Random:
        if name not in self._cache:
            s = int.from_bytes(
                hashlib.sha256(f"{self.seed}:{name}".encode()).digest()[:8], "big"
            )
            self._cache[name] = random.Random(s)
        return self._cache[name]


def jdump(obj: Any) -> str:
    """Transport / storage form.  Key order is kept: the order of the keys of a detection map or of a
    field mapping is part of a scenario (a key-sorted copy is a different scenario and need not replay)."""
    return json.dumps(obj, sort_keys=False, ensure_ascii=True, default=_json_default)


def jdump_sorted(obj: Any) -> str:
    return json.dumps(obj, sort_keys=True, ensure_ascii=True, default=_json_default)


def _json_default(o: Any) -> Any:
    if isinstance(o, (set, frozenset)):
        return sorted(o, key=repr)
    if isinstance(o, bytes):
        return o.decode("utf-8", "replace")
    return repr(o)


def digest(obj: Any) -> str:
    return hashlib.sha256(jdump(obj).encode()).hexdigest()[:16]  # order-preserving, like the scenario itself


# ------------------------------------------------------------------------------------------------
# fork executor


class HarnessError(Exception):
    pass


def run_in_fork(fn: Callable[[Any], Any], arg: Any, timeout: float = 20.0) -> tuple[str, Any]:
    """
    Run fn(arg) in a forked child of the current (pristine) process.  Returns (status, payload):
    ("ok", result) | ("harness", traceback text) | ("timeout", None).  The child never returns.
    """
    r, w = os.pipe()
    sys.stdout.flush()
    sys.stderr.flush()
    pid = os.fork()
    if pid == 0:  # child
        try:
            os.close(r)
            # self-destruct: an orphaned descendant must never outlive its budget.  (Not
            # faulthandler.dump_traceback_later: re-arming it in a forked child deadlocks on the
            # watchdog thread that fork did not copy.)
            signal.signal(signal.SIGALRM, signal.SIG_DFL)
            signal.alarm(int(timeout) + 2)
            try:
                res = fn(arg)
                data = jdump({"ok": res})
            except BaseException:
                data = jdump({"harness": traceback.format_exc()[-4000:]})
            b = data.encode()
            view = memoryview(b)
            while view:
                n = os.write(w, view[:65536])
                view = view[n:]
            os.close(w)
        finally:
            os._exit(0)
    os.close(w)
    chunks: list[bytes] = []
    deadline = time.monotonic() + timeout
    status = "ok"
    while True:
        left = deadline - time.monotonic()
        if left <= 0:
            status = "timeout"
            break
        rl, _, _ = select.select([r], [], [], left)
        if not rl:
            status = "timeout"
            break
        chunk = os.read(r, 1 << 16)
        if not chunk:
            break
        chunks.append(chunk)
    os.close(r)
    if status == "timeout":
        try:
            os.kill(pid, signal.SIGKILL)
        except ProcessLookupError:
            pass
    try:
        os.waitpid(pid, 0)
    except ChildProcessError:
        pass
    if status == "timeout":
        return ("timeout", None)
    raw = b"".join(chunks)
    if not raw:
        return ("harness", "child died without output")
    try:
        d = json.loads(raw.decode())
    except Exception as e:  # pragma: no cover
        return ("harness", f"undecodable child output: {e}: {raw[:200]!r}")
    if "ok" in d:
        return ("ok", d["ok"])
    return ("harness", d.get("harness"))


# ------------------------------------------------------------------------------------------------
# batch runner


class Machine:
    """Interface every property machine implements (duck-typed module or object)."""

    PROPERTY: str
    RULE: str  # how cases are generated, what makes one non-trivial/distinct
    REAL: list[str]
    STUB: list[str]
    ASSUMPTIONS: list[str]
    QUICK_RUNS: int
    RUN_TIMEOUT: float = 30.0

    def generate(self, streams: Streams, tier: str) -> dict: ...

    def execute(self, scenario: dict) -> dict: ...

    def shrink(self, scenario: dict) -> Iterable[dict]: ...

    def tags(self, scenario: dict, violation: dict) -> set[str]: ...


def _one_run(args: tuple[Any, int, int, str]) -> dict:
    """Executed in the forked run child: build scenario from seed and execute it."""
    machine, index, seed, tier = args
    # the library's own use of the random module (names of added conditions, filter prefixes) is part of
    # the run: it is decided by the run seed like everything else
    random.seed(seed)
    streams = Streams(seed)
    scenario = machine.generate(streams, tier)
    scenario["property"] = machine.PROPERTY
    scenario["seed"] = seed
    scenario["index"] = index
    out = machine.execute(scenario)
    out.setdefault("violation", None)
    rec = {
        "index": index,
        "seed": seed,
        "digest": digest({"s": scenario, "o": out.get("log")}),
        "schedule_digest": digest(scenario),
        "signature": out.get("signature"),
        "nontrivial": bool(out.get("nontrivial")),
        "faults": out.get("faults", {}),
        "probes": out.get("probes", {}),
        "steps": out.get("steps", 0),
        "violation": out.get("violation"),
        "unavailable_knobs": out.get("unavailable_knobs", []),
    }
    if out.get("violation") is not None or index < 3:
        rec["scenario"] = scenario
    if index < 3:
        rec["log"] = out.get("log")
    return rec


def _worker(machine: Any, indices: Iterable[int], base_seed: int, tier: str, path: str,
            deadline: float | None) -> None:
    with open(path, "w") as f:
        for i in indices:
            if deadline is not None and time.monotonic() > deadline:
                break
            seed = run_seed(machine.PROPERTY, i, base_seed)
            status, payload = run_in_fork(
                _one_run, (machine, i, seed, tier), getattr(machine, "RUN_TIMEOUT", 30.0)
            )
            if status == "ok":
                rec = payload
            else:
                rec = {"index": i, "seed": seed, "harness": status, "detail": payload}
            f.write(jdump(rec) + "\n")
            f.flush()


def run_batch(machine: Any, tier: str, n_runs: int | None, budget_s: float | None,
              workers: int | None = None, base_seed: int | None = None,
              start_index: int = 0) -> list[dict]:
    """
    Run a batch.  Count-based (n_runs) batches execute exactly indices start..start+n_runs-1 whatever
    the worker count; time-boxed batches (budget_s) execute as many as fit, in strided order.
    The calling process must be pristine (never have executed a pySigma operation).
    """
    workers = workers or int(os.environ.get("VERIF_WORKERS", "0")) or min(16, os.cpu_count() or 1)
    base_seed = verif_seed() if base_seed is None else base_seed
    scratch = tempfile.mkdtemp(prefix="sigsim-batch-")
    deadline = None if budget_s is None else time.monotonic() + budget_s
    pids = []
    try:
        for k in range(workers):
            if n_runs is not None:
                idx: Iterable[int] = range(start_index + k, start_index + n_runs, workers)
            else:
                idx = _count_from(start_index + k, workers)
            path = os.path.join(scratch, f"w{k}.jsonl")
            sys.stdout.flush()
            sys.stderr.flush()
            pid = os.fork()
            if pid == 0:
                code = 0
                try:
                    _worker(machine, idx, base_seed, tier, path, deadline)
                except BaseException:
                    traceback.print_exc()
                    code = 3
                finally:
                    os._exit(code)
            pids.append(pid)
        bad = 0
        for pid in pids:
            _, st = os.waitpid(pid, 0)
            if st != 0:
                bad += 1
        recs: list[dict] = []
        for k in range(workers):
            path = os.path.join(scratch, f"w{k}.jsonl")
            if os.path.exists(path):
                with open(path) as f:
                    for line in f:
                        line = line.strip()
                        if line:
                            recs.append(json.loads(line))
        if bad:
            recs.append({"index": -1, "seed": 0, "harness": "worker", "detail": f"{bad} workers failed"})
        recs.sort(key=lambda r: r["index"])
        return recs
    finally:
        shutil.rmtree(scratch, ignore_errors=True)


def _count_from(start: int, step: int) -> Iterable[int]:
    i = start
    while True:
        yield i
        i += step


def batch_digest(recs: list[dict], key: str = "digest") -> str:
    return digest([(r["index"], r.get(key)) for r in recs if "harness" not in r])


# ------------------------------------------------------------------------------------------------
# executing one given scenario (replay, minimisation)


def _exec_scenario(args: tuple[Any, dict]) -> dict:
    machine, scenario = args
    random.seed(scenario.get("seed", 0))
    return machine.execute(copy.deepcopy(scenario))


def execute_scenario(machine: Any, scenario: dict) -> tuple[str, Any]:
    return run_in_fork(_exec_scenario, (machine, scenario), getattr(machine, "RUN_TIMEOUT", 30.0))


def violation_class(v: dict | None) -> tuple | None:
    if not v:
        return None
    return (v.get("oracle"), v.get("kind"))


def minimise(machine: Any, scenario: dict, vclass: tuple, budget_s: float = 45.0,
             accept: Callable[[dict, dict], bool] | None = None) -> tuple[dict, dict | None]:
    """
    Greedy delta debugging: repeatedly try the machine's shrink candidates; accept a candidate iff
    it still fails with the same violation class (and the optional extra predicate holds).
    Returns (minimised scenario, its violation).
    """
    deadline = time.monotonic() + budget_s
    best = copy.deepcopy(scenario)
    best_v = None
    for _ in range(3):  # re-execution is deterministic; retry only guards against a loaded machine
        status, out = execute_scenario(machine, best)
        if status == "ok":
            best_v = out.get("violation")
            break
    progress = True
    while progress and time.monotonic() < deadline:
        progress = False
        for cand in machine.shrink(best):
            if time.monotonic() > deadline:
                break
            status, out = execute_scenario(machine, cand)
            if status != "ok":
                continue
            v = out.get("violation")
            if violation_class(v) == vclass and (accept is None or accept(cand, v)):
                best, best_v = cand, v
                progress = True
                break
    return best, best_v


# generic list-shrinking helper used by machines
def drop_one(lst: list) -> Iterable[list]:
    n = len(lst)
    # halves first, then single elements (from the end: later ops depend on earlier ones)
    if n >= 4:
        yield lst[: n // 2]
        yield lst[n // 2:]
    for i in reversed(range(n)):
        yield lst[:i] + lst[i + 1:]


# ------------------------------------------------------------------------------------------------
# known findings


def load_known_findings() -> list[dict]:
    path = os.path.join(VERIF_DIR, "known_findings.json")
    if not os.path.exists(path):
        return []
    with open(path) as f:
        return json.load(f).get("findings", [])


def match_known(prop: str, violation: dict, tags: set[str], findings: list[dict]) -> dict | None:
    for f in findings:
        if f.get("status") != "open" or f.get("property") != prop:
            continue
        if f.get("oracle") not in (None, violation.get("oracle")):
            continue
        ftags = set(f.get("tags", []))
        if ftags and ftags <= tags:
            return f
    return None


# ------------------------------------------------------------------------------------------------
# evidence


def write_evidence(prop: str, tier: str, seed: int, coverage: dict, wall_s: float, violations: int,
                   assumptions: list[str]) -> str:
    path = os.path.join(VERIF_DIR, "evidence", f"{prop}.json")
    os.makedirs(os.path.dirname(path), exist_ok=True)
    ev = {
        "property_id": prop,
        "tier": tier,
        "seed": seed,
        "level": "exploration",
        "coverage": coverage,
        "assumptions": assumptions,
        "wall_s": round(wall_s, 2),
        "violations": violations,
    }
    tmp = path + ".tmp"
    with open(tmp, "w") as f:
        json.dump(ev, f, indent=1, sort_keys=True, default=_json_default)
    os.replace(tmp, path)
    return path


def merge_counts(dst: dict, src: dict) -> None:
    for k, v in (src or {}).items():
        dst[k] = dst.get(k, 0) + (v if isinstance(v, int) else 1)

"""
Seams and helpers shared by the machines: building pySigma objects from scenario data, capturing
outcomes of public-API calls in a normalised, comparable form, cache knobs, random-draw control,
directory enumeration order, environment.
"""

from __future__ import annotations

import copy
import functools
import os
import random
import re
import warnings
from typing import Any, Callable

import yaml

warnings.filterwarnings("ignore")

import sigma.conditions as sigma_conditions
from sigma.collection import SigmaCollection
from sigma.exceptions import SigmaError
from sigma.processing.pipeline import ProcessingPipeline

_ADDR = re.compile(r"0x[0-9a-fA-F]{6,}")
# the random part of the internal names, however long it is
_COND = re.compile(r"_cond_[a-z]{4,}")
_FILT = re.compile(r"_filt_(?!undefined_)[a-z]{4,}")
_TMP = re.compile(r"/[^\s'\"]*sigsim-[A-Za-z0-9_]+")
# auto-generated processing item identifiers are a hash over the transformation's attribute repr,
# which contains object addresses and random names: whether *those* are stable is C20's question.
_AUTOID = re.compile(r"'[0-9a-f]{16}'")


_FLATSET = re.compile(r"\{('[^'{}]*'(?:, '[^'{}]*')+)\}")


def _sort_flat_set(m: "re.Match[str]") -> str:
    return "{" + ", ".join(sorted(m.group(1).split(", "))) + "}"


def normalise(s: Any, keep_random: bool = False) -> Any:
    """Normalise strings that legitimately differ between two executions: scratch paths, object
    addresses and (unless keep_random) the random _cond_/_filt_ identifiers."""
    if isinstance(s, str):
        s = _ADDR.sub("0xADDR", s)
        s = _TMP.sub("/SCRATCH", s)
        if not keep_random:
            # reprs of string sets: order depends on the hashes of the (normalised-away) members
            s = _FLATSET.sub(_sort_flat_set, s)
        if not keep_random:
            s = _COND.sub("_cond_RANDOM", s)
            s = _FILT.sub("_filt_RANDOM", s)
        return s
    if isinstance(s, bytes):
        return normalise(s.decode("utf-8", "replace"), keep_random)
    if isinstance(s, (list, tuple)):
        return [normalise(x, keep_random) for x in s]
    if isinstance(s, dict):
        # keys too (a detection added by add_condition is a dict key of the rule's dict form); keys that
        # become equal after masking are kept apart by a counter in insertion order
        out: dict[str, Any] = {}
        for k, v in s.items():
            nk = base = normalise(str(k), keep_random)
            n = 1
            while nk in out:
                n += 1
                nk = f"{base}#{n}"
            out[nk] = normalise(v, keep_random)
        return out
    if isinstance(s, (int, float, bool)) or s is None:
        return s
    return normalise(repr(s), keep_random)


def exc_record(e: BaseException, keep_random: bool = False) -> dict:
    return {
        "exc": type(e).__name__,
        "sigma": isinstance(e, SigmaError),
        "msg": normalise(str(e), keep_random),
    }


def capture(fn: Callable[[], Any], keep_random: bool = False) -> dict:
    """Run a public-API call and record its result or exception in comparable form."""
    try:
        return {"ok": normalise(fn(), keep_random)}
    except Exception as e:  # noqa: BLE001 - the outcome *is* the observation
        return exc_record(e, keep_random)


def build_pipeline(spec: dict | None, **kwargs: Any) -> ProcessingPipeline | None:
    """Fresh pipeline object from a YAML-level spec (from_dict mutates its argument: deep-copy)."""
    if spec is None:
        return None
    spec = copy.deepcopy(spec)
    # "nest" post-processing items cannot be built from a dict by the pinned tree (the item factory hands the
    # inner dicts to the dataclass constructor); they are built with the Python API: a stand-in item carries
    # the identifier and conditions through from_dict, then receives the nested transformation.
    nests: dict[int, list[dict]] = {}
    for idx, pp in enumerate(spec.get("postprocessing") or []):
        if isinstance(pp, dict) and pp.get("type") == "nest":
            nests[idx] = pp.pop("items")
            pp["type"] = "embed"
            pp["prefix"] = ""
    p = ProcessingPipeline.from_dict(spec, **kwargs)
    for idx, inner in nests.items():
        from sigma.processing.pipeline import QueryPostprocessingItem
        from sigma.processing.postprocessing import NestedQueryPostprocessingTransformation

        item = p.postprocessing_items[idx]
        nested = NestedQueryPostprocessingTransformation(
            items=[QueryPostprocessingItem.from_dict(copy.deepcopy(i)) for i in inner])
        item.transformation = nested
        nested.set_processing_item(item)
        nested.set_pipeline(p)
    return p


def load_collection(docs: list[dict], **kwargs: Any) -> SigmaCollection:
    return SigmaCollection.from_dicts(copy.deepcopy(docs), **kwargs)


def dump_yaml(docs: list[dict]) -> str:
    return yaml.safe_dump_all(docs, sort_keys=False)


def errors_record(errors: list, start: int = 0, keep_random: bool = False) -> list:
    out = []
    for rule, err in errors[start:]:
        out.append({"rule": getattr(rule, "title", None), **exc_record(err, keep_random)})
    return out


# ------------------------------------------------------------------------------------------------
# cache knobs ("buggify"): best effort, guarded by hasattr


def set_parse_cache_size(size: int | None, unavailable: list[str]) -> None:
    if size is None:
        return
    fn = getattr(sigma_conditions, "_parse_condition_string", None)
    wrapped = getattr(fn, "__wrapped__", None)
    if fn is None or wrapped is None:
        unavailable.append("parse_cache_size")
        return
    sigma_conditions._parse_condition_string = functools.lru_cache(maxsize=size)(wrapped)


def parse_cache_info() -> tuple[int, int, int] | None:
    fn = getattr(sigma_conditions, "_parse_condition_string", None)
    info = getattr(fn, "cache_info", None)
    if info is None:
        return None
    i = info()
    return (i.hits, i.misses, i.currsize)


def flush_caches(which: str, unavailable: list[str]) -> None:
    if which in ("parse", "all"):
        fn = getattr(sigma_conditions, "_parse_condition_string", None)
        if hasattr(fn, "cache_clear"):
            fn.cache_clear()
        else:
            unavailable.append("parse_cache_clear")
    if which in ("packrat", "all"):
        try:
            from pyparsing import ParserElement

            ParserElement.reset_cache()
        except Exception:
            unavailable.append("packrat_reset")
    if which in ("typehint", "all"):
        try:
            import sigma.modifiers as m

            cache = getattr(m, "_type_hint_cache", None)
            if cache is None:
                # look for a cache attribute on the modifier base class
                found = False
                for name in dir(m.SigmaModifier):
                    if "cache" in name.lower():
                        obj = getattr(m.SigmaModifier, name)
                        if hasattr(obj, "clear"):
                            obj.clear()
                            found = True
                        elif hasattr(obj, "cache_clear"):
                            obj.cache_clear()
                            found = True
                if not found:
                    unavailable.append("typehint_cache")
            else:
                cache.clear()
        except Exception:
            unavailable.append("typehint_cache")


# ------------------------------------------------------------------------------------------------
# random draws


class DrawControl:
    """Replace random.choices by a function that returns what the scenario says."""

    def __init__(self, draws: list[str] | None = None, seed: int | None = None):
        self.draws = list(draws or [])
        self.rng = random.Random(seed if seed is not None else 0)
        self.served: list[str] = []
        self._orig = random.choices

    def __enter__(self) -> "DrawControl":
        def choices(population: Any, weights: Any = None, *, cum_weights: Any = None, k: int = 1) -> list:
            if self.draws:
                s = self.draws.pop(0)
                out = list(s[:k].ljust(k, "a"))
            else:
                out = [population[self.rng.randrange(len(population))] for _ in range(k)]
            self.served.append("".join(map(str, out)))
            return out

        random.choices = choices  # type: ignore[assignment]
        return self

    def __exit__(self, *a: Any) -> None:
        random.choices = self._orig  # type: ignore[assignment]


# ------------------------------------------------------------------------------------------------
# directory enumeration order (Path.glob seam)


class GlobOrder:
    """Wrap pathlib.Path.glob so that the simulator decides the enumeration order."""

    def __init__(self, order_key: Callable[[list], list]):
        self.order_key = order_key
        import pathlib

        self._pathlib = pathlib
        self._orig = pathlib.Path.glob
        self.calls = 0

    def __enter__(self) -> "GlobOrder":
        orig = self._orig
        outer = self

        def glob(self: Any, pattern: str, **kw: Any) -> Any:
            outer.calls += 1
            found = sorted(orig(self, pattern, **kw))
            return iter(outer.order_key(found))

        self._pathlib.Path.glob = glob  # type: ignore[method-assign]
        return self

    def __exit__(self, *a: Any) -> None:
        self._pathlib.Path.glob = self._orig  # type: ignore[method-assign]


def scratch_dir() -> str:
    import tempfile

    return tempfile.mkdtemp(prefix="sigsim-")


# ------------------------------------------------------------------------------------------------
# /verif-defined transformation that fails half-way (partial application) - registered under a
# type name so that YAML-level specs can refer to it in both the history and the fresh world.

from dataclasses import dataclass, field as _dc_field

from sigma.exceptions import SigmaTransformationError
from sigma.processing.transformations import transformations as _transformations
from sigma.processing.transformations.base import DetectionItemTransformation
from sigma.processing.postprocessing import (
    QueryPostprocessingTransformation,
    query_postprocessing_transformations as _qpt,
)


@dataclass
class SimFailAtTransformation(DetectionItemTransformation):
    """Renames the field of every detection item it visits to touched.<field> and raises a Sigma
    transformation error at the fail_at-th item (1-based; 0 = never)."""

    fail_at: int = 0
    _seen: int = _dc_field(init=False, default=0, compare=False, repr=False)

    def apply(self, rule):  # type: ignore[no-untyped-def]
        self._seen = 0
        return super().apply(rule)

    def apply_detection_item(self, detection_item):  # type: ignore[no-untyped-def]
        self._seen += 1
        if self.fail_at and self._seen == self.fail_at:
            raise SigmaTransformationError(f"sim_fail_at item {self.fail_at}", source=detection_item.source)
        if detection_item.field is not None:
            detection_item.field = "touched." + detection_item.field
        return detection_item


@dataclass
class SimFailPostprocessing(QueryPostprocessingTransformation):
    """Post-processing item that raises a Sigma error for rules whose title is listed."""

    titles: list = _dc_field(default_factory=list)

    def apply(self, rule, query):  # type: ignore[no-untyped-def]
        super().apply(rule, query)
        if rule.title in self.titles:
            raise SigmaTransformationError(f"sim_fail_post for {rule.title}")
        return query


_transformations["sim_fail_at"] = SimFailAtTransformation
_qpt["sim_fail_post"] = SimFailPostprocessing

"""
Pure-Python generators over plain data (dicts, lists, strings).  Nothing here imports or calls
pySigma: a scenario is a pure function of the PRNG streams it is given.
"""

from __future__ import annotations

import copy
from random import Random
from typing import Any

FIELDS = ["User", "Image", "CommandLine", "EventID", "ParentImage", "src_ip", "TargetObject", "a.b"]
PRODUCTS = ["windows", "linux", "macos"]
CATEGORIES = ["process_creation", "network_connection", "file_event", None]

# detection names: plain, digit-containing, keyword-prefixed, underscore-prefixed
NAMES_PLAIN = ["selection", "sel1", "sel2", "sel_3", "filter", "filter_main", "x1y", "keywords"]
NAMES_TRICKY = ["notepad", "and_x", "oracle", "allow", "them1", "anyone", "of_x", "_hidden", "1st"]

STR_ATOMS = ["adm", "cmd", "exe", "foo", "bar", "svc", "Temp", "x", "A", "7"]
STR_SPECIAL = ["\\", "*", "?", " ", "/", "-", ":", '"', "%", ".", "\\\\", "\\*"]

UUIDS = [
    "5d9bc1f0-3a0c-4b7e-9d58-0b0b3c1d0001", "5d9bc1f0-3a0c-4b7e-9d58-0b0b3c1d0002",
    "5d9bc1f0-3a0c-4b7e-9d58-0b0b3c1d0003", "5d9bc1f0-3a0c-4b7e-9d58-0b0b3c1d0004",
    "5d9bc1f0-3a0c-4b7e-9d58-0b0b3c1d0005", "5d9bc1f0-3a0c-4b7e-9d58-0b0b3c1d0006",
    "5d9bc1f0-3a0c-4b7e-9d58-0b0b3c1d0007", "5d9bc1f0-3a0c-4b7e-9d58-0b0b3c1d0008",
    "5d9bc1f0-3a0c-4b7e-9d58-0b0b3c1d0009", "5d9bc1f0-3a0c-4b7e-9d58-0b0b3c1d000a",
]


def pick(rng: Random, seq: list) -> Any:
    return seq[rng.randrange(len(seq))]


def chance(rng: Random, p: float) -> bool:
    return rng.random() < p


# ------------------------------------------------------------------------------------------------
# values and detection items


def gen_string(rng: Random, special: float = 0.3, maxparts: int = 3) -> str:
    parts = []
    for _ in range(rng.randint(1, maxparts)):
        parts.append(pick(rng, STR_SPECIAL) if chance(rng, special) else pick(rng, STR_ATOMS))
    s = "".join(parts)
    return s or "x"


def gen_plain_string(rng: Random) -> str:
    return "".join(pick(rng, STR_ATOMS) for _ in range(rng.randint(1, 2)))


def gen_value(rng: Random, special: float = 0.3) -> Any:
    r = rng.random()
    if r < 0.70:
        return gen_string(rng, special)
    if r < 0.85:
        return rng.choice([0, 1, 5, 4624, 4688, -3, 10])
    if r < 0.90:
        return rng.choice([1.5, 0.25])
    if r < 0.95:
        return rng.choice([True, False])
    return None


# (modifier chain, value generator kind)
MODIFIER_TABLE: list[tuple[list[str], str]] = [
    ([], "any"), ([], "any"), ([], "any"), ([], "list"),
    (["contains"], "str"), (["startswith"], "str"), (["endswith"], "str"),
    (["contains", "all"], "strlist"), (["all"], "strlist"),
    (["re"], "regex"), (["re", "i"], "regex"), (["re", "i", "m", "s"], "regex"),
    (["cased"], "str"), (["contains", "cased"], "str"),
    (["base64"], "plainstr"), (["base64offset", "contains"], "plainstr"),
    (["wide", "base64"], "plainstr"), (["utf16", "base64offset", "contains"], "plainstr"),
    (["contains", "windash"], "dash"), (["windash", "contains"], "dash"), (["windash"], "dash"),
    (["expand"], "placeholder"), (["contains", "expand"], "placeholder"),
    (["fieldref"], "field"), (["fieldref", "startswith"], "field"),
    (["exists"], "bool"), (["cidr"], "cidr"),
    (["lt"], "num"), (["gte"], "num"), (["neq"], "any"),
    (["minute"], "smallnum"), (["hour"], "smallnum"),
]

PLACEHOLDERS = ["admins", "servers", "empty_var", "undefined_ph", "num_var"]


def gen_item(rng: Random, fields: list[str] | None = None, allow_keyword_mod: bool = True,
             special: float = 0.3, table: list | None = None) -> tuple[str, Any]:
    fields = fields or FIELDS
    mods, kind = pick(rng, table or MODIFIER_TABLE)
    field = pick(rng, fields)
    if kind == "any":
        v: Any = gen_value(rng, special)
    elif kind == "list":
        v = [gen_value(rng, special) for _ in range(rng.randint(2, 3))]
        v = [x for x in v if x is not None and not isinstance(x, bool)] or ["x"]
        if chance(rng, 0.1):
            v.append(copy.deepcopy(pick(rng, v)))  # the same value twice in one list
    elif kind == "str":
        v = gen_string(rng, special) if chance(rng, 0.7) else [gen_string(rng, special), gen_string(rng, special)]
    elif kind == "strlist":
        v = [gen_string(rng, special) for _ in range(rng.randint(2, 3))]
        if chance(rng, 0.1):
            v.append(pick(rng, v))  # the same value twice in one list
    elif kind == "regex":
        v = pick(rng, ["foo.*bar", "^a[bc]+$", "x\\d+/y", "(?:cmd|pwsh)\\.exe$", "a\\\\b", "no/slash"])
    elif kind == "plainstr":
        v = gen_plain_string(rng)
    elif kind == "dash":
        v = pick(rng, ["-enc foo", " -x /y", "a-b -c", "/q -w"])
    elif kind == "placeholder":
        ph = pick(rng, PLACEHOLDERS)
        v = pick(rng, ["%{}%", "pre%{}%", "%{}%post", "a%{}%b\\*", "\\%{}\\%x", "%{}%\\%lit\\%"]).format(ph)
    elif kind == "field":
        v = pick(rng, fields)
    elif kind == "bool":
        v = chance(rng, 0.5)
    elif kind == "cidr":
        v = pick(rng, ["10.0.0.0/8", "192.168.1.0/24", "172.16.0.0/12", "::1/128", "fe80::/10"])
    elif kind == "num":
        v = rng.choice([1, 5, 100, 4624, 2.5, 123456789012345678])  # the last one is not representable as float
    elif kind == "smallnum":
        v = rng.randint(0, 59)
    else:  # pragma: no cover
        v = "x"
    key = "|".join([field] + mods)
    return key, v


def gen_detection(rng: Random, fields: list[str] | None = None, special: float = 0.3,
                  table: list | None = None) -> Any:
    r = rng.random()
    if r < 0.65:  # map
        d: dict[str, Any] = {}
        for _ in range(rng.randint(1, 3)):
            k, v = gen_item(rng, fields, special=special, table=table)
            d[k] = v
        if chance(rng, 0.12):  # two items with the same modifier chain on different fields
            k0 = next(iter(d))
            chain = k0.split("|")[1:]
            other = pick(rng, [f for f in (fields or FIELDS) if f != k0.split("|")[0]])
            v0 = d[k0]
            d["|".join([other] + chain)] = copy.deepcopy(v0)
            if chain in ([], ["neq"]) and chance(rng, 0.35):
                d[k0] = None  # a null value next to a value under what may become the same key
        return d
    if r < 0.80:  # list of maps
        out = []
        for _ in range(rng.randint(2, 3)):
            d = {}
            for _ in range(rng.randint(1, 2)):
                k, v = gen_item(rng, fields, special=special, table=table)
                d[k] = v
            out.append(d)
        return out
    if r < 0.95:  # keyword list
        return [gen_string(rng, special) for _ in range(rng.randint(1, 3))]
    return gen_string(rng, special)  # single keyword


# ------------------------------------------------------------------------------------------------
# conditions


def gen_condition(rng: Random, names: list[str], depth: int = 0, selectors: bool = True) -> str:
    r = rng.random()
    if depth >= 2 or r < 0.35 or len(names) == 0:
        if selectors and chance(rng, 0.2) and names:
            q = pick(rng, ["1 of", "all of", "any of"])
            n = pick(rng, names)
            pat = pick(rng, ["them", n[: max(1, len(n) // 2)] + "*", n[:1] + "*", "*" + n[-2:], n + "*"])
            pat = pat.replace("-", "_")
            return f"{q} {pat}"
        return pick(rng, names)
    if r < 0.50:
        return "not " + gen_condition(rng, names, depth + 1, selectors)
    op = " and " if r < 0.78 else " or "
    left = gen_condition(rng, names, depth + 1, selectors)
    right = gen_condition(rng, names, depth + 1, selectors)
    if chance(rng, 0.35):
        right = "(" + right + ")"
    if chance(rng, 0.15):
        left = "(" + left + ")"
    return left + op + right


def gen_condition_covering(rng: Random, names: list[str], selectors: bool = True) -> str:
    """A condition that refers to every detection name at least once (no dangling detection)."""
    parts = []
    for n in names:
        p = n
        if chance(rng, 0.25):
            p = "not " + p
        parts.append(p)
    rng.shuffle(parts)
    expr = parts[0]
    for p in parts[1:]:
        op = " and " if chance(rng, 0.6) else " or "
        if chance(rng, 0.3):
            expr = "(" + expr + ")" + op + p
        else:
            expr = expr + op + p
    return expr


# ------------------------------------------------------------------------------------------------
# rules


def gen_logsource(rng: Random) -> dict[str, str]:
    ls: dict[str, str] = {}
    if chance(rng, 0.85):
        ls["product"] = pick(rng, PRODUCTS)
    cat = pick(rng, CATEGORIES)
    if cat:
        ls["category"] = cat
    if not ls:
        ls["product"] = "windows"
    if chance(rng, 0.15):
        ls["service"] = pick(rng, ["security", "sysmon", "auth"])
    return ls


def gen_rule(rng: Random, title: str, *, names_pool: list[str] | None = None,
             tricky: float = 0.1, fields: list[str] | None = None, special: float = 0.3,
             multi_cond: float = 0.2, with_meta: float = 0.5, table: list | None = None,
             selectors: bool = True, rid: str | None = None, name: str | None = None) -> dict:
    n_det = rng.choice([1, 1, 2, 2, 2, 3])
    pool = list(names_pool or NAMES_PLAIN)
    names: list[str] = []
    while len(names) < n_det:
        n = pick(rng, NAMES_TRICKY) if chance(rng, tricky) else pick(rng, pool)
        if n not in names:
            names.append(n)
    det: dict[str, Any] = {}
    for n in names:
        det[n] = gen_detection(rng, fields, special, table)
    ref_names = [n for n in names]
    if chance(rng, multi_cond):
        det["condition"] = [gen_condition(rng, ref_names, selectors=selectors) for _ in range(rng.randint(2, 3))]
    else:
        det["condition"] = gen_condition(rng, ref_names, selectors=selectors)
    rule: dict[str, Any] = {"title": title}
    if rid:
        rule["id"] = rid
    if name:
        rule["name"] = name
    if chance(rng, with_meta):
        rule["status"] = pick(rng, ["test", "stable", "experimental"])
        rule["level"] = pick(rng, ["low", "medium", "high", "critical"])
        if chance(rng, 0.5):
            rule["tags"] = rng.sample(["attack.t1059", "attack.execution", "cve.2021-44228", "tlp.amber"], 2)
        if chance(rng, 0.4):
            rule["date"] = pick(rng, ["2024-01-02", "2023/5/7"])
        if chance(rng, 0.3):
            rule["description"] = "desc " + title
        if chance(rng, 0.3):
            rule["custom_x"] = {"k": [1, 2]}
    rule["logsource"] = gen_logsource(rng)
    if chance(rng, 0.5):
        rule["fields"] = rng.sample(fields or FIELDS, rng.randint(1, 3))
    rule["detection"] = det
    return rule


# ------------------------------------------------------------------------------------------------
# pipelines (YAML-level specs, so a fresh world can rebuild them)


def rule_condition(rng: Random) -> dict:
    r = rng.random()
    if r < 0.55:
        return {"type": "logsource", "product": pick(rng, PRODUCTS)}
    if r < 0.70:
        return {"type": "contains_field", "field": pick(rng, FIELDS)}
    if r < 0.80:
        return {"type": "processing_state", "key": "index", "val": pick(rng, ["win", "lin", "s1"])}
    if r < 0.90:
        return {"type": "processing_item_applied", "processing_item_id": pick(rng, ["it0", "it1", "it2"])}
    return {"type": "is_sigma_rule"}


def field_name_condition(rng: Random) -> dict:
    r = rng.random()
    if r < 0.6:
        return {"type": "include_fields", "fields": rng.sample(FIELDS, rng.randint(1, 3))}
    if r < 0.8:
        return {"type": "exclude_fields", "fields": rng.sample(FIELDS, rng.randint(1, 2))}
    return {"type": "processing_item_applied", "processing_item_id": pick(rng, ["it0", "it1", "it2"])}


def detection_item_condition(rng: Random) -> dict:
    r = rng.random()
    if r < 0.5:
        return {"type": "match_string", "cond": pick(rng, ["any", "all"]), "pattern": pick(rng, ["adm", ".*exe", "^foo", "x"])}
    if r < 0.7:
        return {"type": "contains_wildcard", "cond": "any"}
    if r < 0.85:
        return {"type": "processing_item_applied", "processing_item_id": pick(rng, ["it0", "it1", "it2"])}
    return {"type": "processing_state", "key": "index", "val": pick(rng, ["win", "lin", "s1"])}


TRANSFORMATION_KINDS = [
    "field_name_mapping", "field_name_mapping_1n", "field_name_prefix", "field_name_suffix",
    "field_name_prefix_mapping", "replace_string", "set_state", "add_condition",
    "drop_detection_item", "change_logsource", "set_field", "add_field", "remove_field",
    "value_placeholders", "wildcard_placeholders", "rule_failure", "detection_item_failure",
    "nest", "case", "map_string", "set_value", "convert_type", "regex", "set_custom_attribute",
    "query_expression_placeholders", "hashes_fields", "strict_field_mapping_failure", "field_name_mapping_chain",
    # mappings whose targets are names that other rules use as source fields (staged mappings), weighted up
    "field_name_mapping_swap", "field_name_mapping_swap", "field_name_mapping_swap", "strict_field_mapping_failure",
]


def gen_transformation(rng: Random, kind: str | None = None, idx: int = 0, depth: int = 0,
                       tag: str = "") -> dict:
    kind = kind or pick(rng, TRANSFORMATION_KINDS)
    t: dict[str, Any]
    if kind == "field_name_mapping":
        fs = rng.sample(FIELDS, rng.randint(1, 3))
        if chance(rng, 0.3):  # several fields mapped to ONE name: items with duplicate keys afterwards
            fs = rng.sample(FIELDS, rng.randint(2, 4))
            t = {"type": "field_name_mapping", "mapping": {f: f"{tag}same" for f in fs}}
        else:
            t = {"type": "field_name_mapping", "mapping": {f: f"{tag}m.{f.lower()}" for f in fs}}
    elif kind == "field_name_mapping_swap":  # field names mapped onto each other: a target is somebody's source
        a, b, c = rng.sample(FIELDS, 3)
        t = {"type": "field_name_mapping", "mapping": pick(rng, [{a: b}, {a: b, b: c}, {a: b, c: a}])}
        t["rule_conditions"] = [{"type": "logsource", "product": pick(rng, PRODUCTS)}]
    elif kind == "strict_field_mapping_failure":  # fails for rules with fields no earlier item mapped
        t = {"type": "strict_field_mapping_failure"}
    elif kind == "field_name_mapping_chain":  # second stage: maps the *targets* of field_name_mapping
        fs = rng.sample(FIELDS, rng.randint(2, 4))
        t = {"type": "field_name_mapping", "mapping": {f"{tag}m.{f.lower()}": f"{tag}c.{f}" for f in fs}}
    elif kind == "field_name_mapping_all_same":  # every field gets ONE name: duplicate keys afterwards
        t = {"type": "field_name_mapping", "mapping": {f: f"{tag}same" for f in FIELDS}}
    elif kind == "field_name_mapping_1n":
        f = pick(rng, FIELDS)
        t = {"type": "field_name_mapping", "mapping": {f: [f"{tag}n1.{f}", f"{tag}n2.{f}"]}}
        if chance(rng, 0.4):  # a list with ONE target: still the one-to-many code path
            t = {"type": "field_name_mapping", "mapping": {ff: [f"{tag}n1.{ff}"] for ff in rng.sample(FIELDS, 3)}}
    elif kind == "field_name_prefix":
        t = {"type": "field_name_prefix", "prefix": pick(rng, ["win.", "ecs.", "x_"]) if not tag else tag + "."}
    elif kind == "field_name_suffix":
        t = {"type": "field_name_suffix", "suffix": pick(rng, [".keyword", "_s"]) if not tag else "." + tag}
    elif kind == "field_name_prefix_mapping":
        t = {"type": "field_name_prefix_mapping", "mapping": {pick(rng, ["Us", "Im", "Co", "a."]): f"{tag}pm_"}}
    elif kind == "replace_string":
        t = {"type": "replace_string", "regex": pick(rng, ["adm", "foo", "^cmd", "x$", "\\\\"]),
             "replacement": pick(rng, ["ADM", "", "zz", "/"]) + tag}
        if chance(rng, 0.3):
            t["skip_special"] = True
    elif kind == "set_state":
        t = {"type": "set_state", "key": pick(rng, ["index", "index", "dm"]), "val": pick(rng, ["win", "lin", "s1"]) + tag}
    elif kind == "add_condition":
        t = {"type": "add_condition", "conditions": {pick(rng, ["src", "EventID"]): pick(rng, ["added" + tag, 1, ["a", "b"]])}}
        if chance(rng, 0.3):
            t["negated"] = True
        if chance(rng, 0.3):
            t["template"] = True
            t["conditions"] = {"src": "$product-$category"}
        if chance(rng, 0.3):
            # an explicit name for the added detection, taken from the names rules use themselves: the
            # transformation has to draw a replacement for the rules that already have such a detection
            t["name"] = pick(rng, NAMES_PLAIN)
    elif kind == "drop_detection_item":
        t = {"type": "drop_detection_item"}
    elif kind == "change_logsource":
        t = {"type": "change_logsource", "product": pick(rng, PRODUCTS), "category": "changed" + tag}
    elif kind == "set_field":
        t = {"type": "set_field", "fields": [f"{tag}sf1", f"{tag}sf2"]}
    elif kind == "add_field":
        t = {"type": "add_field", "field": pick(rng, [f"{tag}af", [f"{tag}af1", f"{tag}af2"]])}
    elif kind == "remove_field":
        t = {"type": "remove_field", "field": pick(rng, FIELDS)}
    elif kind == "value_placeholders":
        t = {"type": "value_placeholders"}
        if chance(rng, 0.4):
            t["include"] = rng.sample(PLACEHOLDERS, 2)
    elif kind == "wildcard_placeholders":
        t = {"type": "wildcard_placeholders"}
        if chance(rng, 0.4):
            t["exclude"] = rng.sample(PLACEHOLDERS, 1)
    elif kind == "query_expression_placeholders":
        t = {"type": "query_expression_placeholders", "expression": "{field} lookup {id}" + tag}
    elif kind == "rule_failure":
        t = {"type": "rule_failure", "message": "rule failure " + tag}
    elif kind == "detection_item_failure":
        t = {"type": "detection_item_failure", "message": "item failure " + tag}
    elif kind == "nest" and depth < 2:
        t = {"type": "nest", "items": [gen_transformation(rng, None, i, depth + 1, tag) for i in range(rng.randint(1, 3))]}
    elif kind == "case":
        t = {"type": "case", "method": pick(rng, ["lower", "upper", "snake_case"])}
    elif kind == "map_string":
        t = {"type": "map_string", "mapping": {pick(rng, STR_ATOMS): pick(rng, ["mapped" + tag, ["m1", "m2"]])}}
    elif kind == "set_value":
        t = {"type": "set_value", "value": pick(rng, ["sv" + tag, 7, None, True])}
    elif kind == "convert_type":
        t = {"type": "convert_type", "target_type": pick(rng, ["str", "num"])}
    elif kind == "regex":
        t = {"type": "regex", "method": pick(rng, ["plain", "ignore_case_flag", "ignore_case_brackets"])}
    elif kind == "set_custom_attribute":
        # mostly a new attribute; sometimes the name of a standard rule attribute
        t = {"type": "set_custom_attribute", "attribute": pick(rng, ["attr" + tag, "attr" + tag, "level", "status"]),
             "value": pick(rng, ["v" + tag, "low"])}
    elif kind == "hashes_fields":
        t = {"type": "hashes_fields", "valid_hash_algos": ["MD5", "SHA1"], "field_prefix": "File"}
    else:
        t = {"type": "set_state", "key": "index", "val": "s1" + tag}
    # conditions
    needs_cond = kind in ("rule_failure", "detection_item_failure", "drop_detection_item")
    if kind == "rule_failure" or chance(rng, 0.35):
        t["rule_conditions"] = [rule_condition(rng) for _ in range(rng.randint(1, 2))]
        if chance(rng, 0.3):
            t["rule_cond_op"] = pick(rng, ["and", "or"])
        if chance(rng, 0.15):
            t["rule_cond_not"] = True
    if kind not in ("rule_failure", "set_state", "change_logsource", "set_field", "add_field",
                    "remove_field", "nest", "add_condition", "set_custom_attribute",
                    "strict_field_mapping_failure"):
        if needs_cond or chance(rng, 0.3):
            if chance(rng, 0.6) or kind == "drop_detection_item":
                t["field_name_conditions"] = [field_name_condition(rng)]
            else:
                t["detection_item_conditions"] = [detection_item_condition(rng)]
    if chance(rng, 0.5):
        t["id"] = f"it{idx}"
    return t


POSTPROCESSING_KINDS = ["embed", "simple_template", "replace", "template", "json"]


def gen_postprocessing(rng: Random, tag: str) -> dict:
    kind = pick(rng, POSTPROCESSING_KINDS)
    if kind == "embed":
        t: dict[str, Any] = {"type": "embed", "prefix": f"[{tag} ", "suffix": f" {tag}]"}
    elif kind == "simple_template":
        t = {"type": "simple_template", "template": "[" + tag + " {query} T={rule.title} S={pipeline.state} " + tag + "]"}
    elif kind == "replace":
        t = {"type": "replace", "pattern": pick(rng, ["AND", "idx="]), "replacement": pick(rng, ["&&", "IDX:"]) + tag}
    elif kind == "template":
        t = {"type": "template", "template": "[" + tag + " {{ query }} L={{ rule.level }} V={{ pipeline.vars }} " + tag + "]"}
    else:
        t = {"type": "json", "json_template": pick(rng, [
            '{"q": "%QUERY%", "t": "' + tag + '"}',
            '{"qs": ["%QUERY%"], "t": "' + tag + '"}',                      # the placeholder inside an array
            '{"a": [{"q": "%QUERY%"}, ["x", "%QUERY%"]], "t": "' + tag + '"}'])}
    if chance(rng, 0.25):
        t["rule_conditions"] = [rule_condition(rng)]
    if chance(rng, 0.4):
        t["id"] = f"pp{tag}"
    return t


def gen_finalizer(rng: Random, tag: str, depth: int = 0) -> dict:
    kind = pick(rng, ["concat", "json", "template", "nested", "concat"])
    if kind == "concat":
        return {"type": "concat", "separator": f" /{tag}/ ", "prefix": f"<{tag} ", "suffix": f" {tag}>"}
    if kind == "json":
        return {"type": "json"}
    if kind == "template":
        return {"type": "template", "template": "<" + tag + " {% for q in queries %}{{ q }};{% endfor %} V={{ pipeline.vars }} " + tag + ">"}
    if depth < 1:
        return {"type": "nested", "finalizers": [gen_finalizer(rng, tag + "n", depth + 1)]}
    return {"type": "concat", "separator": ";", "prefix": f"<{tag} ", "suffix": f" {tag}>"}


def gen_pipeline(rng: Random, tag: str = "", n_items: tuple[int, int] = (1, 4), post: float = 0.4,
                 final: float = 0.25, kinds: list[str] | None = None, with_vars: float = 0.6,
                 prio: bool = False, name: str | None = None, nest: float = 0.0) -> dict:
    spec: dict[str, Any] = {}
    if name is not None:
        spec["name"] = name
    if prio:
        spec["priority"] = rng.choice([0, 10, 10, 20, 50])
    if chance(rng, with_vars):
        spec["vars"] = {}
        if chance(rng, 0.8):
            spec["vars"]["admins"] = pick(rng, [["root" + tag, "adm*"], "single" + tag, ["a", "b", "c"]])
        if chance(rng, 0.5):
            spec["vars"]["servers"] = ["srv1" + tag, "srv2"]
        if chance(rng, 0.3):
            spec["vars"]["empty_var"] = []
        if chance(rng, 0.3):
            spec["vars"]["num_var"] = [1, 2]
    n = rng.randint(*n_items)
    spec["transformations"] = [
        gen_transformation(rng, pick(rng, kinds) if kinds else None, i, 0, tag) for i in range(n)
    ]
    if chance(rng, 0.3) and spec["transformations"]:
        # an item that depends on whether an earlier, rule-conditional item was applied to *this* rule
        first = spec["transformations"][0]
        first.setdefault("id", "it0")
        if "rule_conditions" not in first and first["type"] not in ("rule_failure",):
            first["rule_conditions"] = [{"type": "logsource", "product": pick(rng, PRODUCTS)}]
        dep = gen_transformation(rng, pick(rng, ["set_state", "field_name_suffix", "add_field", "field_name_prefix"]),
                                 len(spec["transformations"]), 0, tag + "dep")
        dep["rule_conditions"] = [{"type": "processing_item_applied", "processing_item_id": first["id"]}]
        dep.pop("rule_cond_op", None)
        dep.pop("rule_cond_not", None)
        if chance(rng, 0.5):
            # the same dependency written as a named condition with a condition expression
            dep["rule_conditions"] = {"applied": dep["rule_conditions"][0], "is_rule": {"type": "is_sigma_rule"}}
            dep["rule_cond_expr"] = pick(rng, ["applied and is_rule", "is_rule and applied", "applied and (is_rule or applied)"])
        spec["transformations"].append(dep)
    if chance(rng, 0.2):
        # a field-name level item that depends on pipeline state which only some rules set: the answer for one
        # and the same field name differs from rule to rule
        spec["transformations"].append({"type": "set_state", "key": "fnstate", "val": "on",
                                        "rule_conditions": [{"type": "logsource", "product": pick(rng, PRODUCTS)}]})
        dep = ({"type": "field_name_prefix", "prefix": "st."} if chance(rng, 0.5)
               else {"type": "field_name_suffix", "suffix": ".st"})
        if chance(rng, 0.5):
            dep["field_name_conditions"] = [{"type": "processing_state", "key": "fnstate", "val": "on"}]
        else:
            # the same dependency at rule level, as a named condition with a condition expression
            dep["rule_conditions"] = {"st": {"type": "processing_state", "key": "fnstate", "val": "on"}}
            dep["rule_cond_expr"] = "st"
        spec["transformations"].append(dep)
    if chance(rng, post):
        spec["postprocessing"] = [gen_postprocessing(rng, tag + str(i)) for i in range(rng.randint(1, 2))]
    if chance(rng, final):
        spec["finalizers"] = [gen_finalizer(rng, tag + str(i)) for i in range(rng.randint(1, 2))]
    if nest and chance(rng, nest):
        # a nested post-processing item (a pipeline inside the item; world.build_pipeline builds it with the
        # Python API) whose inner items are rule-conditional and carry explicit identifiers, optionally
        # followed by an item that depends on whether an inner item was applied to *this* rule
        inner = []
        for j in range(rng.randint(1, 2)):
            it = gen_postprocessing(rng, f"{tag}n{j}")
            it["id"] = f"ppn{tag}{j}"
            if chance(rng, 0.7):
                it["rule_conditions"] = [{"type": "logsource", "product": pick(rng, PRODUCTS)}]
            inner.append(it)
        outer: dict[str, Any] = {"type": "nest", "items": inner}
        if chance(rng, 0.3):
            outer["id"] = f"nest{tag}"
        pp = spec.setdefault("postprocessing", [])
        pp.insert(rng.randint(0, len(pp)), outer)
        if chance(rng, 0.4):
            dep = gen_postprocessing(rng, tag + "ndep")
            dep["rule_conditions"] = [{"type": "processing_item_applied", "processing_item_id": inner[0]["id"]}]
            pp.append(dep)
    return spec


# ------------------------------------------------------------------------------------------------
# correlation rules and filters


CORR_TYPES = ["event_count", "value_count", "temporal", "temporal_ordered", "value_sum", "value_avg",
              "value_median", "value_percentile"]


def gen_correlation(rng: Random, title: str, refs: list[str], *, rid: str | None = None,
                    name: str | None = None, generate: bool | None = None) -> dict:
    ctype = pick(rng, CORR_TYPES)
    corr: dict[str, Any] = {"type": ctype, "rules": list(refs), "timespan": pick(rng, ["5m", "1h", "30s", "2d"])}
    if chance(rng, 0.6):
        corr["group-by"] = rng.sample(["User", "src_ip", "Image"], rng.randint(1, 2))
    if generate is not None:
        corr["generate"] = generate
    cond: dict[str, Any] = {pick(rng, ["gte", "gte", "gt", "lt", "lte", "eq", "neq"]): pick(rng, [1, 1, 1, 2, 3, 5, 10])}
    if ctype in ("value_count", "value_sum", "value_avg", "value_median", "value_percentile"):
        cond["field"] = pick(rng, FIELDS)
    if ctype == "value_percentile":
        cond["percentile"] = pick(rng, [0, 50, 95])
    if ctype in ("temporal", "temporal_ordered") and chance(rng, 0.5):
        pass  # default condition
    else:
        corr["condition"] = cond
    d: dict[str, Any] = {"title": title}
    if rid:
        d["id"] = rid
    if name:
        d["name"] = name
    d["correlation"] = corr
    return d


def gen_filter(rng: Random, title: str, rules: Any, logsource: dict, names: list[str] | None = None) -> dict:
    names = names or ["selection", "flt", "sel_2"]
    n = rng.randint(1, 2)
    chosen = rng.sample(names, n)
    flt: dict[str, Any] = {"rules": rules}
    for c in chosen:
        flt[c] = {pick(rng, FIELDS): gen_plain_string(rng)}
    flt["condition"] = pick(rng, ["not " + chosen[0], chosen[0], "not 1 of them"] + (["not 1 of " + chosen[0][:3] + "*"]))
    return {"title": title, "logsource": dict(logsource), "filter": flt}


def clone(x: Any) -> Any:
    return copy.deepcopy(x)

"""
Record a repaired defect:  tools_fixed.py <finding-id> <property> <replay file> <mutant name or -> <<< "<what failed>"
 - copies the minimised replay to findings/fixed/<finding-id>.json and checks that it replays without violation,
 - appends the 'fixed:' entry (commit = $FIX_COMMIT or HEAD of /repo) to known_findings.json,
 - writes mutants/<property>-<mutant name>.patch as the revert of the HEAD commit of /repo (sigma/ only).
"""
import json
import os
import shutil
import subprocess
import sys

fid, prop, replay, mutant = sys.argv[1:5]
what = sys.stdin.read().strip()
here = os.path.dirname(os.path.abspath(__file__))
commit = os.environ.get("FIX_COMMIT") or subprocess.run("git -C /repo log --format=%h -1", shell=True, capture_output=True, text=True).stdout.strip()
dst = f"findings/fixed/{fid}.json"
shutil.copy(replay, os.path.join(here, dst))
r = subprocess.run([os.path.join(here, "check"), "replay", dst], cwd=here, capture_output=True, text=True)
assert r.returncode == 0, r.stdout + r.stderr
p = os.path.join(here, "known_findings.json")
d = json.load(open(p))
d["findings"] = [f for f in d["findings"] if f["id"] != fid]
d["findings"].append({"id": fid, "property": prop, "status": "fixed", "commit": commit,
                      "line": f"fixed: property={prop} {commit} {what}", "witness": [dst]})
json.dump(d, open(p, "w"), indent=1)
if mutant != "-":
    diff = subprocess.run(f"git -C /repo diff {commit}~1 {commit} -R -- sigma", shell=True, capture_output=True, text=True).stdout
    open(os.path.join(here, "mutants", f"{prop}-{mutant}.patch"), "w").write(diff)
print("recorded", fid, commit)

import json,sys
for f in sys.argv[1:]:
    d=json.load(open(f))
    v=d['violation']
    print("=====",f, v.get('oracle'), v.get('kind'), d.get('tags'))
    for o in d.get('ops',[]): print("  ",json.dumps(o))
    for k in ('kind','cls','format','transformation','pipeline','pipelines','class_pipelines','documents','files','validators','exclusions','worlds','refs','dangling','schedule','filters','faults','disabled','knobs','configs','specs'):
        if d.get(k): print(f"  {k}:",json.dumps(d[k])[:1200])
    g,w=json.dumps(v.get('got')),json.dumps(v.get('want'))
    i=next((i for i,(a,b) in enumerate(zip(g,w)) if a!=b),min(len(g),len(w)))
    print("  first diff at",i)
    print("  got :",g[max(0,i-200):i+400])
    print("  want:",w[max(0,i-200):i+400])

"""tools_mkmutant.py <name> <relative file under /repo> : reads OLD and NEW from a JSON on stdin:
{"old": "...", "new": "..."} and writes mutants/<name>.patch (unified diff, -p1 relative to repo root)."""
import sys, json, difflib, os
name, rel = sys.argv[1], sys.argv[2]
spec = json.load(sys.stdin)
src = open(os.path.join("/repo", rel)).read()
assert src.count(spec["old"]) == 1, f"old text occurs {src.count(spec['old'])} times"
dst = src.replace(spec["old"], spec["new"])
diff = difflib.unified_diff(src.splitlines(True), dst.splitlines(True), "a/" + rel, "b/" + rel)
out = os.path.join(os.path.dirname(os.path.abspath(__file__)), "mutants", name + ".patch")
open(out, "w").write("".join(diff))
print("wrote", out)

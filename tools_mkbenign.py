"""like tools_mkmutant.py, but writes benign/<name>.patch : behaviour-preserving refactorings the checks must stay quiet on."""
import sys, json, difflib, os
name, rel = sys.argv[1], sys.argv[2]
spec = json.load(sys.stdin)
src = open(os.path.join("/repo", rel)).read()
dst = src
for old, new in spec["edits"]:
    assert dst.count(old) == 1, f"old text occurs {dst.count(old)} times: {old[:50]}"
    dst = dst.replace(old, new)
diff = difflib.unified_diff(src.splitlines(True), dst.splitlines(True), "a/" + rel, "b/" + rel)
out = os.path.join(os.path.dirname(os.path.abspath(__file__)), "benign", name + ".patch")
open(out, "w").write("".join(diff))
print("wrote", out)
